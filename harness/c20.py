"""C20 — lock primitives give the exclusion they document.

Tie: pymap's real `_AsyncioReadWriteLock` (through `ReadWriteLock.for_asyncio()`), driven by a deterministic scheduler, vs the
Lean `RWLock` transition system (a model of the lock on top of a model of `asyncio.Lock`: FIFO hand-off, woken and cancelled
waiters) about which C20_exclusion and C20_cancel_safe are proved for any number of tasks, any schedule and cancellation at any
step.  Every step of every explored schedule is replayed in the model (`rw run i` / `rw cancel i`) and the observable state —
who is inside a read section, who inside a write section, who waits, who is finished, and the reader counter — is compared.
Exploration: all schedules (DFS over "release which parked task" / "cancel which task") of all programs of 2-3 tasks with
1-2 sections each, with at most one cancellation; random schedules for 4 tasks.
Monitors: no writer overlaps anyone; every run can be drained to completion (no deadlock when holders release); after the run a
fresh reader and a fresh writer still get the lock (usable after cancellation), and the counter is 0.
File lock (`FileLock`): tasks take the write lock on one path with a yield, an exception or a cancellation inside; never two
holders, the lock file is gone after every exit; an expired lock file is taken over.
"""
from __future__ import annotations
import asyncio
import itertools
import os
import random

from .common import backends
from .common.model import Model
from .common.report import Part, guarded

RULE = ('programs of 2-4 tasks x 1-2 read/write sections with a yield inside; schedules = sequences of "advance task i" / "cancel task i" (at most one cancellation): '
        'exhaustive DFS for all programs of 2 tasks (quick) and 3 tasks (thorough), random for more; every step replayed in the Lean model; '
        'non-trivial = some task had to wait for the lock at some step; distinct by (program, schedule)')


class Harness:
    def __init__(self, progs):
        from pymap.concurrent import ReadWriteLock
        from .common.sched import Sched
        self.progs = progs
        self.lock = ReadWriteLock.for_asyncio()
        self.sched = Sched()
        self.inside = {}         # task index -> 'r' | 'w'
        self.done = set()
        self.dead = set()
        self.tasks = []
        self.overlap = None
        self.waited = False

    async def body(self, i):
        try:
            for kind in self.progs[i]:
                await self.sched.point('acquire')
                cm = self.lock.read_lock() if kind else self.lock.write_lock()
                async with cm:
                    self.inside[i] = 'r' if kind else 'w'
                    if 'w' in self.inside.values() and len(self.inside) > 1:
                        self.overlap = dict(self.inside)
                    try:
                        await self.sched.point('inside')
                    finally:
                        self.inside.pop(i, None)
            self.done.add(i)
        except asyncio.CancelledError:
            self.dead.add(i)
            raise

    async def start(self):
        for i in range(len(self.progs)):
            self.tasks.append(asyncio.create_task(self.body(i), name=str(i)))
        await self.sched.quiesce()

    def enabled(self):
        """actions available now: ('run', i) for parked tasks, ('cancel', i) for tasks blocked on the lock or parked inside"""
        acts = []
        for n in sorted(self.sched.parked):
            acts.append(('run', int(n)))
        for i, t in enumerate(self.tasks):
            if t.done():
                continue
            parked = self.sched.parked.get(str(i))
            if parked is None or parked[0] == 'inside':
                acts.append(('cancel', i))
        return acts

    async def act(self, a):
        kind, i = a
        if kind == 'run':
            await self.sched.release(str(i))
        else:
            self.tasks[i].cancel()
            await self.sched.quiesce()
        # tasks that are neither parked nor finished are blocked on the lock
        for j, t in enumerate(self.tasks):
            if not t.done() and str(j) not in self.sched.parked:
                self.waited = True

    def observe(self):
        """per task: 'in-r', 'in-w', 'wait', 'park' (at an acquire point), 'done', 'dead'"""
        out = []
        for i, t in enumerate(self.tasks):
            if i in self.inside:
                out.append('in-' + self.inside[i])
            elif t.done():
                out.append('dead' if (t.cancelled() or i in self.dead) else 'done')
            elif str(i) in self.sched.parked:
                out.append('park')
            else:
                out.append('wait')
        return out

    async def finish(self):
        ok = await self.sched.release_all()
        await self.sched.quiesce()
        stuck = [i for i, t in enumerate(self.tasks) if not t.done()]
        for t in self.tasks:
            if not t.done():
                t.cancel()
        await asyncio.gather(*self.tasks, return_exceptions=True)
        return stuck


def model_obs(line):
    """driver state -> same alphabet as Harness.observe"""
    toks = line.split()
    counter = int(toks[0])
    out = []
    for t in toks[1:]:
        pc, left = t.split(':')
        if pc == 'rIn':
            out.append('in-r')
        elif pc == 'wIn':
            out.append('in-w')
        elif pc in ('rWaitR', 'rWaitW', 'wWaitW'):
            out.append('wait')
        elif pc in ('cR', 'cRW', 'cW'):
            out.append('unwinding')
        elif pc == 'dead':
            out.append('dead')
        else:
            out.append('done' if left == '0' else 'park')
    return counter, out


def sync_model(m, real_obs):
    """the real loop runs woken / cancelled tasks by itself; the model needs an explicit `run` for them"""
    line = m.ask('rw state')
    for _ in range(12):
        counter, mobs = model_obs(line)
        progressed = False
        for j, (a, b) in enumerate(zip(real_obs, mobs)):
            # a waiter that has been woken, or a cancelled one, runs by itself in the real loop — also when what can be observed of it
            # stays 'wait' (it moves on from the queue of R to the queue of W): `run` is disabled in the model unless it was woken
            if b in ('wait', 'unwinding'):
                r = m.ask(f'rw run {j}')
                if r != 'DISABLED':
                    line = r
                    progressed = True
        if not progressed:
            break
    return line


async def run_schedule(part, m, progs, schedule, explore=False):
    """runs the given prefix of actions; returns (enabled actions after it, violated?)"""
    h = Harness(progs)
    await h.start()
    m.ask('rw reset ' + ';'.join(','.join('1' if k else '0' for k in p) or '-' for p in progs))
    case = dict(programs=[[int(k) for k in p] for p in progs], schedule=[list(a) for a in schedule])
    bad = False
    model_ok = True
    for step, a in enumerate(schedule):
        if a not in h.enabled():
            break
        await h.act(a)
        real = h.observe()
        if model_ok:
            r = m.ask(f'rw {a[0]} {a[1]}')
            if r == 'DISABLED':
                part.violation('correspondence', f'step {step} {a} of schedule {schedule} on programs {case["programs"]} is possible on the real lock but disabled in the RWLock model', case,
                               signature='rw-disabled')
                model_ok = False
            else:
                line = sync_model(m, real)
                counter, mobs = model_obs(line)
                rc = getattr(h.lock, '_counter', None)
                if mobs != real:
                    part.violation('correspondence', f'after step {step} {a} of {schedule} on programs {case["programs"]}: real lock {real}, RWLock model {mobs}', case, signature='rw-state')
                    model_ok = False
                elif rc is not None and rc != counter:
                    part.violation('correspondence', f'after step {step} {a} of {schedule} on {case["programs"]}: reader counter {rc}, RWLock model {counter}', case, signature='rw-counter')
                    model_ok = False
        # the property itself (kept running after a correspondence break: this is the failing-input search)
        if h.overlap:
            part.violation('monitor', f'a writer\'s critical section overlapped another section: {h.overlap} after step {step} {a} of {schedule} on programs {case["programs"]}', case,
                           signature='overlap')
            bad = True
            break
    nxt = h.enabled() if not bad else []
    if not explore or not nxt or bad:
        # leaf: drain, then the lock must still be usable
        stuck = await h.finish()
        if h.overlap and not bad:
            part.violation('monitor', f'a writer\'s critical section overlapped another section: {h.overlap} while draining {schedule} on programs {case["programs"]}', case, signature='overlap')
        if stuck and not bad:
            part.violation('monitor', f'tasks {stuck} never finish although every holder releases (schedule {schedule}, programs {case["programs"]})', case, signature='deadlock')
        if not bad:
            async def fresh():
                async with h.lock.read_lock():
                    pass
                async with h.lock.write_lock():
                    pass
                return True
            try:
                await asyncio.wait_for(fresh(), 0.5)
            except (asyncio.TimeoutError, TimeoutError):
                part.violation('monitor', f'after schedule {schedule} on programs {case["programs"]} a fresh reader/writer cannot take the lock any more (counter '
                               f'{getattr(h.lock, "_counter", "?")})', case, signature='unusable')
            rc = getattr(h.lock, '_counter', 0)
            if rc != 0:
                part.violation('monitor', f'after schedule {schedule} on programs {case["programs"]} everything is finished but the reader counter is {rc}', case, signature='counter-leak')
        part.case(key=repr((case['programs'], case['schedule'])), nontrivial=h.waited, sample=dict(programs=case['programs'], schedule=case['schedule'][:10]))
        part.trace()
    else:
        for t in h.tasks:
            t.cancel()
        await asyncio.gather(*h.tasks, return_exceptions=True)
    return nxt, bad


def dfs(part, m, progs, max_leaves):
    """all schedules with at most one cancellation"""
    leaves = 0
    stack = [[]]
    while stack and leaves < max_leaves:
        sched = stack.pop()
        nxt, bad = asyncio.run(run_schedule(part, m, progs, sched, explore=True))
        if bad or not nxt:
            leaves += 1
            continue
        cancelled = any(a[0] == 'cancel' for a in sched)
        for a in reversed(nxt):
            if a[0] == 'cancel' and cancelled:
                continue
            stack.append(sched + [a])
        if all(a[0] == 'cancel' for a in nxt) and cancelled:
            leaves += 1
    return leaves, not stack


def worker(job):
    seed, prog_list, nrandom, max_leaves = job
    r = random.Random(seed)
    part = Part()
    m = Model()
    try:
        for progs in prog_list:
            with guarded(part, 'C20 dfs', dict(programs=[[int(k) for k in p] for p in progs])):
                leaves, complete = dfs(part, m, progs, max_leaves)
                part.stat('dfs-programs')
                part.stat('dfs-complete' if complete else 'dfs-truncated')
        for _ in range(nrandom):
            nt = r.choice([3, 4, 4])
            progs = [[r.random() < 0.55 for _ in range(r.randint(1, 2))] for _ in range(nt)]
            with guarded(part, 'C20 random', dict(programs=[[int(k) for k in p] for p in progs])):
                sched = []
                cancelled = False
                for _ in range(40):
                    nxt, bad = asyncio.run(run_schedule(part, m, progs, sched, explore=True))
                    if bad or not nxt:
                        break
                    opts = [a for a in nxt if a[0] == 'run' or not cancelled]
                    if not opts:
                        break
                    a = r.choice(opts) if r.random() < 0.85 else r.choice(nxt if not cancelled else opts)
                    cancelled = cancelled or a[0] == 'cancel'
                    sched.append(a)
                asyncio.run(run_schedule(part, m, progs, sched, explore=False))
        with guarded(part, 'C20 file lock', dict(scenario='filelock', seed=seed)):
            for k in range(max(4, nrandom // 2)):
                asyncio.run(filelock_case(part, r, m))
                asyncio.run(withwrite_case(part, r))
                asyncio.run(withinit_case(part, r))
            for k in range(max(3, nrandom // 3)):
                with guarded(part, 'C20 threading lock', dict(scenario='threading-rwlock', seed=seed)):
                    threading_case(part, r, m)
    finally:
        m.close()
    return part.result()


# ------------------------------------------------------------------ FileLock
async def filelock_case(part, r, m):
    from pymap.concurrent import FileLock
    d = backends.scratch_dir('pymap-verif-fl-')
    path = os.path.join(d, 'lockfile')
    holders = []
    events = []
    started = set()
    trace = []
    case = dict(scenario='filelock', plan=[])
    try:
        n = r.randint(2, 4)
        # 'cancel-wait': cancelled while it is still waiting for the lock; 'impatient': a retry budget of two attempts (may time out)
        plan = [(r.choice(['ok', 'ok', 'raise', 'cancel', 'cancel-wait', 'impatient']), r.randint(0, 5)) for _ in range(n)]
        case['plan'] = plan
        if r.random() < 0.2:
            # a stale lock file older than the expiration is taken over
            with open(path, 'x'):
                pass
            os.utime(path, (1, 1))
            trace.append('s')

        async def writer(i, how, yields):
            lock = FileLock(path, expiration=600.0, write_retry_delay=(0.0,) * (2 if how == 'impatient' else 60))
            started.add(i)
            # trace of the primitive steps, in the alphabet of the Lean `FileLock` model
            t0, u0, c0 = lock._try_lock, lock._unlock, lock._check_lock

            def try_lock():
                ok = t0()
                if ok:
                    trace.append(f't{i}')
                return ok

            def unlock():
                trace.append(f'u{i}')
                return u0()

            def check_lock():
                had = os.path.exists(path)
                free = c0()
                if had and free and not os.path.exists(path):
                    trace.append('x')
                return free
            lock._try_lock, lock._unlock, lock._check_lock = try_lock, unlock, check_lock
            async with lock.write_lock():
                holders.append(i)
                if len(holders) > 1:
                    events.append(('overlap', list(holders)))
                if not os.path.exists(path):
                    events.append(('no-file-while-held', i))
                try:
                    for _ in range(yields):
                        await asyncio.sleep(0)
                        if not os.path.exists(path):
                            events.append(('no-file-while-held', i))
                            break
                    if how == 'raise':
                        raise RuntimeError('boom')
                    if how == 'cancel':
                        await asyncio.sleep(3600)
                finally:
                    holders.remove(i)
        tasks = [asyncio.create_task(writer(i, how, y)) for i, (how, y) in enumerate(plan)]
        for _ in range(400):
            await asyncio.sleep(0)
            for t, (how, y) in zip(tasks, plan):
                if how == 'cancel' and not t.done() and tasks.index(t) in holders:
                    t.cancel()
                if how == 'cancel-wait' and not t.done() and tasks.index(t) in started and tasks.index(t) not in holders and holders:
                    t.cancel()
            if all(t.done() for t in tasks):
                break
        res = await asyncio.gather(*tasks, return_exceptions=True)
        part.case(key='fl:' + repr(plan), nontrivial=any(h != 'ok' for h, _ in plan))
        for e in events:
            part.violation('monitor', f'FileLock: {e} with plan {plan}', case, signature='filelock-' + e[0])
        # the recorded steps must be a run of the Lean model (in particular: only a holder ever unlocks), ending with the file state observed
        out = m.ask('flock ' + (','.join(trace) or '-'))
        part.stat('filelock-trace-compared')
        want = f"ok file={1 if os.path.exists(path) else 0} holders=-"
        if out != want:
            part.violation('correspondence', f'FileLock: the recorded steps {trace} are not a run of the FileLock model ending in the observed state: model says {out!r}, '
                           f'observed {want!r} (plan {plan})', dict(case, trace=trace), signature='filelock-model')
        if os.path.exists(path):
            part.violation('monitor', f'FileLock: the lock file is still there after every holder has left (plan {plan}, results {[type(x).__name__ for x in res]})', case,
                           signature='filelock-not-released')
        for x, (how, y) in zip(res, plan):
            if isinstance(x, TimeoutError) and how != 'impatient':
                part.violation('monitor', f'FileLock: a writer timed out although every holder leaves (plan {plan})', case, signature='filelock-timeout')
    finally:
        backends.rmtree(d)


async def withwrite_case(part, r):
    """the lock file as the maildir control files use it (`FileWriteable.with_write`): whatever way the section is left — normally, by an
    exception, by cancellation at a yield inside — the lock file is gone the moment the `async with` has been left"""
    from pymap.backend.maildir.uidlist import UidList
    from pymap.backend.maildir.subscriptions import Subscriptions
    d = backends.scratch_dir('pymap-verif-ww-')
    cls = r.choice([UidList, Subscriptions])
    plan = [(r.choice(['ok', 'raise', 'cancel', 'touch-ok', 'touch-raise']), r.randint(0, 3)) for _ in range(r.choice([1, 1, 2]))]
    case = dict(scenario='with_write', cls=cls.__name__, plan=plan)
    left = []
    holders = []
    try:
        async def section(i, how, yields):
            try:
                async with cls.with_write(d) as obj:
                    holders.append(i)
                    if len(holders) > 1:
                        left.append(('overlap', list(holders)))
                    try:
                        if how.startswith('touch'):
                            if cls is Subscriptions:
                                obj.add('x%d' % i)
                            else:
                                obj.next_uid += 1
                        for _ in range(yields):
                            await asyncio.sleep(0)
                        if how.endswith('raise'):
                            raise KeyError('boom')
                        if how == 'cancel':
                            await asyncio.sleep(3600)
                    finally:
                        holders.remove(i)
            finally:
                # the very next statement after the section
                locks = [f for f in os.listdir(d) if f.endswith('.lock')]
                if locks and not holders:
                    left.append(('lock-left', i, how, locks))
        tasks = [asyncio.create_task(section(i, how, y)) for i, (how, y) in enumerate(plan)]
        loop = asyncio.get_running_loop()
        t0 = loop.time()
        while loop.time() - t0 < 20.0:      # waiters retry on a real clock (10 ms .. 1 s)
            await asyncio.sleep(0.002)
            for i, (t, (how, y)) in enumerate(zip(tasks, plan)):
                if how == 'cancel' and not t.done() and i in holders:
                    t.cancel()
            if all(t.done() for t in tasks):
                break
        for t in tasks:
            if not t.done():
                t.cancel()
        await asyncio.gather(*tasks, return_exceptions=True)
        part.case(key='ww:' + cls.__name__ + repr(plan), nontrivial=any(h not in ('ok', 'touch-ok') for h, _ in plan))
        part.stat('with-write-cases')
        for e in left:
            part.violation('monitor', f'with_write({cls.__name__}): {e} with plan {plan}', case, signature='withwrite-' + e[0])
    finally:
        backends.rmtree(d)


async def withinit_case(part, r):
    """first use of a control file (`FileWriteable.with_init`): the file is created under the write lock.  When creating it fails (the disk is full at the rename, say) the
    lock file is gone the moment the `async with` has been left - also while the error is still being held by whoever reports it - and the next user gets the lock"""
    import errno
    from pymap.backend.maildir.uidlist import UidList
    from pymap.backend.maildir.subscriptions import Subscriptions
    d = backends.scratch_dir('pymap-verif-wi-')
    cls = r.choice([UidList, Subscriptions])
    fault = r.choice(['rename', 'rename', 'none'])
    case = dict(scenario='with_init', cls=cls.__name__, fault=fault)
    orig = os.rename

    def failing(src, dst, *a, **kw):
        if str(dst).startswith(d):
            raise OSError(errno.ENOSPC, 'No space left on device')
        return orig(src, dst, *a, **kw)
    kept = None
    try:
        if fault == 'rename':
            os.rename = failing
        try:
            async with cls.with_init(d):
                pass
        except OSError as exc:
            kept = exc        # an error report keeps the exception, and with it the frames of the section, alive
        finally:
            os.rename = orig
        part.case(key=f'wi:{cls.__name__}:{fault}', nontrivial=fault != 'none')
        part.stat('with-init-cases')
        locks = [f for f in os.listdir(d) if f.endswith('.lock')]
        if locks:
            part.violation('monitor', f'with_init({cls.__name__}): the section was left ({"by " + type(kept).__name__ if kept else "normally"}) and {locks} is still there', case,
                           signature='withinit-lock-left')
            return
        try:
            async with asyncio.timeout(3.0):
                async with cls.with_write(d):
                    pass
        except TimeoutError:
            part.violation('monitor', f'with_init({cls.__name__}) left by {type(kept).__name__ if kept else "normal exit"}: the next writer does not get the lock within 3 s', case,
                           signature='withinit-next-blocked')
    finally:
        os.rename = orig
        del kept
        backends.rmtree(d)


class RecMutex:
    """stands in for one `threading.Lock` of the real lock and records, atomically with its taking effect, every acquisition and release
    together with the thread that performed it (the trace is replayed through the Lean `TRW` model, about which C20_thread_exclusion,
    C20_thread_no_deadlock and C20_thread_terminates are proved)"""

    def __init__(self, inner, name, trace, tmutex):
        self.inner, self.name, self.trace, self.tmutex = inner, name, trace, tmutex

    def acquire(self, blocking=True, timeout=-1):
        import threading
        import time
        while True:
            with self.tmutex:
                if self.inner.acquire(False):
                    self.trace.append(f'{threading.current_thread().name}:a{self.name}')
                    return True
            if not blocking:
                return False
            time.sleep(0.0004)

    def release(self):
        import threading
        with self.tmutex:
            self.trace.append(f'{threading.current_thread().name}:r{self.name}')
            self.inner.release()

    def locked(self):
        return self.inner.locked()

    def __enter__(self):
        self.acquire()
        return self

    def __exit__(self, *exc):
        self.release()


def threading_case(part, r, m=None):
    """the threading twin of the read-write lock (what the maildir backend gets from the executor subsystem), on real threads: one task per
    thread, arrival order and leaving order scripted with events; who is inside is sampled by the tasks themselves"""
    import threading
    import time
    from pymap.concurrent import ReadWriteLock
    lock = ReadWriteLock.for_threading()
    trace = []
    tmutex = threading.Lock()
    recorded = False
    if m is not None and hasattr(lock, '_read_lock') and hasattr(lock, '_write_lock') and hasattr(lock, '_counter'):
        try:
            lock._read_lock = RecMutex(lock._read_lock, 'R', trace, tmutex)
            lock._write_lock = RecMutex(lock._write_lock, 'W', trace, tmutex)
            recorded = True
        except AttributeError:
            recorded = False
    n = r.choice([3, 3, 4])
    kinds = [r.choice('rrw') for _ in range(n)]
    if 'w' not in kinds:
        kinds[r.randrange(n)] = 'w'
    order = list(range(n))
    r.shuffle(order)                      # arrival order
    hold = [r.choice([0.0, 0.05, 0.12]) for _ in range(n)]
    inside = {}
    guard = threading.Lock()
    problems = []
    entered = []
    errors = []

    async def section(i):
        cm = lock.read_lock() if kinds[i] == 'r' else lock.write_lock()
        async with cm:
            with guard:
                inside[i] = kinds[i]
                entered.append(i)
                if 'w' in inside.values() and len(inside) > 1:
                    problems.append(dict(inside))
            time.sleep(hold[i])
            with guard:
                if 'w' in inside.values() and len(inside) > 1:
                    problems.append(dict(inside))
                inside.pop(i, None)

    def run(i):
        loop = asyncio.new_event_loop()
        try:
            loop.run_until_complete(section(i))
        except BaseException as exc:      # noqa
            errors.append((i, repr(exc)))
        finally:
            loop.close()
    threads = {i: threading.Thread(target=run, args=(i,), daemon=True, name=str(i)) for i in range(n)}
    for i in order:
        threads[i].start()
        time.sleep(0.03)                  # arrivals are ordered; whoever is inside stays a little
    stuck = []
    for i, t in threads.items():
        t.join(5.0)
        if t.is_alive():
            stuck.append(i)
    case = dict(scenario='threading-rwlock', kinds=kinds, order=order, hold=hold)
    part.case(key='thr:' + repr((kinds, order, hold)), nontrivial=True)
    part.stat('threading-rwlock-cases')
    if problems:
        part.violation('monitor', f'threading read-write lock: a writer\'s section overlapped another section: {problems[0]} (kinds {kinds}, arrival order {order}, hold {hold})', case,
                       signature='thr-overlap')
    if errors:
        part.violation('monitor', f'threading read-write lock: a section ended with {errors[0]} (kinds {kinds}, arrival order {order})', case, signature='thr-error')
    if recorded:
        # tie: the recorded mutex operations are a run of the TRW model, and end where the model ends
        with tmutex:
            evs = list(trace)
        out = m.ask('trw ' + ';'.join('1' if k == 'r' else '0' for k in kinds) + ' ' + (','.join(evs) or '-'))
        real = f'r={int(lock._read_lock.locked())} w={int(lock._write_lock.locked())} c={lock._counter}'
        part.stat('threading-rwlock-trace-events', len(evs))
        if not out.startswith('ok '):
            part.violation('correspondence', f'threading read-write lock: the recorded mutex operations {evs} are not a run of the TRW model: {out} (kinds {kinds}, arrival order {order})',
                           dict(case, trace=evs), signature='thr-trace')
        elif not stuck and out[3:] != real:
            part.violation('correspondence', f'threading read-write lock: after {evs} the lock is in state {real}, the TRW model in {out[3:]} (kinds {kinds})', dict(case, trace=evs),
                           signature='thr-state')
    if stuck:
        part.violation('monitor', f'threading read-write lock: tasks {stuck} never got the lock although every holder leaves (kinds {kinds}, arrival order {order})', case,
                       signature='thr-deadlock')


def all_programs(ntasks, maxlen):
    secs = [p for n in range(1, maxlen + 1) for p in itertools.product([True, False], repeat=n)]
    seen = set()
    out = []
    for combo in itertools.product(secs, repeat=ntasks):
        key = tuple(sorted(combo))
        if key in seen:
            continue
        seen.add(key)
        out.append([list(p) for p in combo])
    return out


def run(ctx):
    ctx.rep.rule = RULE
    ctx.rep.assumptions = ['asyncio.Lock behaves as in CPython 3.12 (FIFO hand-off, a cancelled waiter wakes the next): the model of it is validated by this correspondence, not proved',
                           'only the asyncio variant of the read-write lock is modelled; the threading twin (repaired: D76) is exercised on real threads with scripted arrival orders, not modelled',
                           'FileLock: exclusion between writers rests on O_EXCL of the filesystem; readers only wait for the file to be absent (as documented)']
    progs = all_programs(2, 2)
    if not ctx.quick:
        progs += all_programs(3, 2)[:120]
    else:
        progs += [[[True], [False], [True]], [[False], [True], [True]], [[True, False], [False], [True]], [[False], [False], [True, True]]]
    nw = ctx.workers
    chunks = [progs[k::nw] for k in range(nw)]
    ctx.rep.extra['dfs'] = f'{len(progs)} programs explored by DFS over all schedules with at most one cancellation'
    ctx.pmap(worker, [(ctx.seed * 1000 + k, chunks[k], ctx.budget(6, 80), ctx.budget(400, 4000)) for k in range(nw)])


def replay(case):
    case = case.get('case', case)
    part = Part()
    if case.get('scenario') == 'filelock':
        print(case)
        return 0
    m = Model()
    progs = [[bool(k) for k in p] for p in case['programs']]
    sched = [tuple(a) for a in case['schedule']]
    asyncio.run(run_schedule(part, m, progs, sched, explore=False))
    m.close()
    res = part.result()
    for v in res['violations']:
        print(f"[{v['kind']}] {v['what']}")
    print('reproduced' if res['violations'] else 'not reproduced')
    return 1 if res['violations'] else 0
