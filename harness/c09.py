"""C09 — authentication and authorization are sound.

Tie: as C05 (real connections vs the Lean `Conn` model; C09_sound, C09_no_reauth, C09_logindisabled, C09_failed_keeps
are theorems about `Conn.step/run`), with an alphabet made of every way to present credentials — LOGIN and SASL PLAIN/LOGIN,
right and wrong passwords, unknown users, authzid = another user with and without the admin role, `*` cancel, malformed
and truncated base64, unknown mechanism — in the three TLS/peer configurations, in all orders of failed and successful
attempts.  The identity a connection acts as is *observed* (LIST shows whose mailboxes) and compared with the model.
Fuzz family (monitor only): random credential byte strings (binary, oversized, empty, NUL-laden) through LOGIN and
AUTHENTICATE never authenticate, and a valid LOGIN afterwards still works.  ManageSieve: the same soundness statements on
the sieve listener (AUTHENTICATE "PLAIN", no authzid step) — see `sieve_auth`.
"""
from __future__ import annotations
import asyncio
import base64
import random

from . import c05
from .common import wire, imapresp
from .common.report import Part, guarded

AUTH = [n for n in c05.ALPHABET if n.startswith(('login', 'auth'))]
CORE = AUTH + ['starttls', 'capability', 'logout', 'list', 'select-inbox', 'noop', 'garbage']
ALL = CORE + ['select-sent', 'close', 'fetch', 'status-inbox', 'idle-done', 'examine-inbox']


def fuzz_creds(r):
    pool = [b'', b'testuser', b'testpass', b'bob', b'root', b'\x00', b'\xff\xfe', b'a' * 300, b'*', b'=', b'"', b'\\', b' ', b'{5}', b'pw', b'\r', b'admin', b'NIL', b'locked', b'locked', b'\xc2\xad']
    return b''.join(r.choice(pool) for _ in range(r.randint(0, 4)))


def quote(b):
    if any(c in b for c in b'\r\n\x00') or len(b) > 200 or any(c > 126 for c in b):
        return b'{%d+}\r\n' % len(b) + b
    return b'"' + b.replace(b'\\', b'\\\\').replace(b'"', b'\\"') + b'"'


async def fuzz_sequence(part, r, cfg):
    tls, local = cfg
    srv, config = await c05.make_server(tls)
    from proxyprotocol.sock import SocketInfoLocal
    c = wire.Client(srv)
    if not local:
        c.pipe.peer = ('8.8.8.8', 4321)
        c._sock_info = SocketInfoLocal(c.pipe)
    await c.start()
    log = []
    case = dict(scenario='fuzz', tls=tls, local=local, log=log)
    valid = {(b'testuser', b'testpass'), (b'bob', b'pwbob'), (b'root', b'pwroot')}
    for _ in range(r.randint(1, 4)):
        if c.task.done():
            break
        u, p = fuzz_creds(r), fuzz_creds(r)
        kind = r.choice(['login', 'plain', 'plain-raw', 'login-mech'])
        if kind == 'login':
            if (u, p) in valid:
                continue
            raw = await c.send(b't LOGIN ' + quote(u) + b' ' + quote(p) + b'\r\n')
            log.append(['LOGIN', u.decode('latin1'), p.decode('latin1')])
        elif kind == 'plain':
            z = r.choice([b'', b'', u, b'bob'])
            if (u, p) in valid and z in (b'', u):
                continue
            if u == b'root' and p == b'pwroot':
                continue
            raw = await c.send(b't AUTHENTICATE PLAIN\r\n')
            if raw.startswith(b'+'):
                raw = await c.send(base64.b64encode(z + b'\0' + u + b'\0' + p) + b'\r\n')
            log.append(['PLAIN', z.decode('latin1'), u.decode('latin1'), p.decode('latin1')])
        elif kind == 'plain-raw':
            raw = await c.send(b't AUTHENTICATE PLAIN\r\n')
            good = base64.b64encode(b'\0bob\0pwbob')
            k = r.randint(0, len(good))
            # valid credentials inside a response that is not base64: bytes outside the alphabet, a cancel mark glued in front
            wrapped = r.choice([good[:k] + r.choice([b'!', b'$', b' ', b'\t', b'??', b'\x00', b'\xff']) + good[k:], b'*' + good, b'!!' + good + b'??', good + b' x'])
            junk = r.choice([fuzz_creds(r), base64.b64encode(fuzz_creds(r)), base64.b64encode(fuzz_creds(r))[:-1], b'====', b'*', b'* ', b'a' * 5000, wrapped, wrapped])
            junk = junk.replace(b'\r', b'').replace(b'\n', b'')
            if raw.startswith(b'+'):
                raw = await c.send(junk + b'\r\n')
            log.append(['PLAIN-RAW', junk.decode('latin1')[:80]])
        else:
            raw = await c.send(b't AUTHENTICATE LOGIN\r\n')
            for part_ in (u, p):
                if raw.rstrip(b'\r\n').split(b'\r\n')[-1].startswith(b'+') and not c.task.done():
                    raw = await c.send(base64.b64encode(part_) + b'\r\n')
            if (u, p) in valid:
                continue
            log.append(['LOGIN-MECH', u.decode('latin1'), p.decode('latin1')])
        cls = c05.classify(raw, c.task.done())
        part.stat('fuzz-class:' + cls)
        if cls in ('OK', 'BYE+OK'):
            part.violation('monitor', f'C09: credentials that are not those of any user were accepted ({cls}): {log[-1]} (tls={tls} local={local})', case,
                           signature='fuzz-accepted')
    obs = await c05.observe(c) if not c.task.done() else ('closed',)
    if obs != ('closed',) and obs[0] is not None:
        part.violation('monitor', f'C09: after only invalid attempts {log} the connection lists mailboxes {obs[0]} (tls={tls} local={local})', case,
                       signature='fuzz-authenticated')
    # still usable: a valid LOGIN now succeeds as that user (when LOGIN is allowed in this configuration)
    if not c.task.done() and not (tls and not local):
        raw = await c.send(b't LOGIN bob pwbob\r\n')
        obs = await c05.observe(c)
        if obs == ('closed',) or obs[0] != tuple(sorted(n.encode() for n in c05.BOXES[2])):
            part.violation('monitor', f'C09: after failed attempts {log} a valid LOGIN as bob ends in {obs}', case, signature='fuzz-then-valid')
    part.case(key='fuzz:' + repr(log), nontrivial=len(log) > 0, sample=dict(scenario='fuzz', log=log[:3]))
    await c.eof()


def fuzz_worker(job):
    seed, n = job
    r = random.Random(seed)
    part = Part()
    for k in range(n):
        with guarded(part, 'C09 fuzz', dict(scenario='fuzz', seed=seed, k=k)):
            asyncio.run(fuzz_sequence(part, r, r.choice(c05.CONFIGS)))
    return part.result()


MD_USERS = [('bob', 'pwbob'), ('\uff42ob', 'pwfw'), ('bob\u00ad', 'pwsh'), ('BOB', 'pwcap'), ('b\u043eb', 'pwcyr'), ('carol', 'pwcarol')]


async def maildir_authz(part, r):
    """maildir backend: accounts whose names look alike (fullwidth letter, soft hyphen, capitals, a Cyrillic letter) are different users; each authenticates
    with its own password and asks to act as each of the others — none of them holds the admin role"""
    from pymap.imap import IMAPServer
    from .common import backends
    base = backends.scratch_dir('pymap-verif-c09-')
    try:
        config, login = await backends.make_maildir(base, users=[(u, p, ()) for u, p in MD_USERS], bad_command_limit=None)
        srv = IMAPServer(login, config)
        # a mailbox named after its owner, so that the identity a connection acts as can be observed
        for k, (u, p) in enumerate(MD_USERS):
            c = wire.Client(srv)
            await c.start()
            await c.send(b't AUTHENTICATE PLAIN\r\n')
            raw = await c.send(base64.b64encode(b'\0' + u.encode() + b'\0' + p.encode()) + b'\r\n')
            if b't OK' not in raw:
                part.violation('monitor', f'maildir: user {u!r} cannot authenticate with its own password: {raw[-100:]!r}', dict(scenario='maildir-authz', user=u), signature='md-own-login')
            await c.send(b't CREATE owner%d\r\n' % k)
            await c.eof()
        pairs = [(a, z) for a in range(len(MD_USERS)) for z in range(len(MD_USERS))]
        r.shuffle(pairs)
        for a, z in pairs[:18]:
            (au, ap), (zu, _) = MD_USERS[a], MD_USERS[z]
            c = wire.Client(srv)
            await c.start()
            await c.send(b't AUTHENTICATE PLAIN\r\n')
            raw = await c.send(base64.b64encode(zu.encode() + b'\0' + au.encode() + b'\0' + ap.encode()) + b'\r\n')
            case = dict(scenario='maildir-authz', authcid=au, authzid=zu)
            part.case(key=f'md-authz:{a}:{z}', nontrivial=a != z)
            ok = b't OK' in raw
            if a != z and ok:
                seen = await c.send(b't LIST "" owner%\r\n')
                part.violation('monitor', f'maildir: {au!r} (no admin role) authenticated with its own password and was authorized as the different user {zu!r}; '
                               f'LIST shows {seen[:80]!r}', case, signature='md-authz-crossed')
            elif a == z:
                seen = await c.send(b't LIST "" owner%\r\n')
                if not ok or (b'owner%d' % a) not in seen or any((b'owner%d' % o) in seen for o in range(len(MD_USERS)) if o != a):
                    part.violation('monitor', f'maildir: {au!r} authenticating as itself: {raw[-80:]!r}, LIST {seen[:120]!r}', case, signature='md-authz-self')
            await c.eof()
    finally:
        backends.rmtree(base)


def maildir_worker(job):
    seed, n = job
    r = random.Random(seed)
    part = Part()
    for k in range(n):
        with guarded(part, 'C09 maildir authz', dict(scenario='maildir-authz', seed=seed, k=k)):
            asyncio.run(maildir_authz(part, r))
    return part.result()


def run(ctx):
    c05.run(ctx, prop='C09', core=CORE, alpha=ALL)
    ctx.pmap(maildir_worker, [(ctx.seed * 53 + k, ctx.budget(1, 6)) for k in range(min(ctx.workers, 4))])
    ctx.rep.rule = ('sequences over every way to present credentials (LOGIN, SASL PLAIN/LOGIN; right/wrong password, unknown user, authzid with and without admin role, cancel, '
                    'malformed base64, unknown mechanism) x {STARTTLS, LOGOUT, probes}, exhaustive to length 2 (thorough 3) in three TLS/peer configurations, random to length 14; '
                    'plus random credential byte strings (monitor only) and the ManageSieve listener; non-trivial = at least two different commands; distinct by sequence')
    ctx.rep.assumptions = ['credential verification (pysasl mechanisms, password hashing) is an oracle of the model; the fixture knows which credentials are valid',
                           'builtin sha1 hash with one round is used so that thousands of logins are cheap']
    nw = ctx.workers
    ctx.pmap(fuzz_worker, [(ctx.seed * 77 + k, ctx.budget(12, 200)) for k in range(nw)])
    # real sockets, real handshake: nothing sent in clear text is acted on after STARTTLS
    from . import c09tls
    ctx.pmap(c09tls.worker, [(ctx.seed * 91 + k, ctx.budget(3, 30)) for k in range(nw)])
    try:
        from . import c19
        ctx.pmap(c19.auth_worker, [(ctx.seed * 31 + k, ctx.budget(10, 150)) for k in range(nw)])
    except ImportError:
        ctx.rep.notes.append('ManageSieve authentication sequences: harness module c19 not available')


def replay(case):
    case = case.get('case', case)
    if case.get('scenario') in ('fuzz', 'maildir-authz', 'starttls-injection'):
        print('case:', case)
        return 0
    if case.get('scenario', '').startswith('sieve'):
        from . import c19
        return c19.replay(case)
    return c05.replay(case)
