"""C15 — maildir state survives restart and crashes without UID damage.

Tie: for append / expunge / flag-change histories the system-call trace recorded in a child process is canonicalised to the
abstract operations of the Lean `MaildirFS` model (createTmp, link, removeTmp, lockCreate, renameUL, lockRemove, renameInfo,
removeFile) and must equal `MaildirFS.ops` of each command; for every crash point n the UIDs a fresh server serves after the
crash must be the model's `listing (recover (prefix n))`.  C15_prefix, C15_full, C15_recover and C15_crash_anywhere (any
history, any crash point: every acknowledged message keeps its UID, the UID list stays duplicate-free, next-UID never goes
back, UIDVALIDITY is kept) are proved about that model.
Monitor (fault enumeration): a child process runs a history of APPEND / STORE / COPY / MOVE / EXPUNGE / CREATE / RENAME /
SUBSCRIBE / CHECK against a maildir store through a real IMAP connection with the filesystem entry points wrapped, and exits
(os._exit) *instead of* performing its k-th filesystem operation — for every k of the history.  A new server is then started
on the directory: every message whose command was acknowledged with OK must be served with the same content, flags and UID
(UIDVALIDITY unchanged); a message touched by the command in flight may be in its old or its new state; no UID may denote a
different content than it was acknowledged for; control files must load (no internal error on LOGIN/SELECT/LIST/LSUB);
acknowledged subscriptions and creations persist.  Layouts ++ and fs; store and temp directory on the same and on different
filesystems (/dev/shm vs the root filesystem).
"""
from __future__ import annotations
import asyncio
import json
import os
import random
import re
import subprocess
import sys
import tempfile
import time

from .common import backends, wire, imapresp, l3
from .common.model import batch, VERIF
from .common.report import Part, guarded

RULE = ('short histories (3-7 commands) over APPEND/STORE/COPY/MOVE/EXPUNGE/UID EXPUNGE/CREATE/RENAME/SUBSCRIBE/CHECK; for each history EVERY filesystem-operation boundary is a '
        'crash point (child process exits instead of the k-th operation), followed by a restart on the same directory; layouts ++ and fs; temp dir on the same and on another '
        'filesystem; non-trivial = the crash fell inside a command (after its first and before its last operation); distinct by (history, layout, k)')

CHILD = os.path.join(os.path.dirname(os.path.abspath(__file__)), 'c15_child.py')
PY = sys.executable
REPO = os.environ.get('PYMAP_REPO', '/repo')


def run_child(base, layout, hist_path, k, ack_path, tmpdir, mode='before'):
    try:
        os.unlink(ack_path)
    except FileNotFoundError:
        pass
    p = subprocess.run([PY, CHILD, REPO, base, layout, hist_path, str(k), ack_path, tmpdir or '-', mode], capture_output=True, text=True, timeout=60,
                       env=dict(os.environ, PYTHONDONTWRITEBYTECODE='1'))
    recs = []
    try:
        for line in open(ack_path):
            recs.append(json.loads(line))
    except FileNotFoundError:
        pass
    return p.returncode, recs, p.stderr[-800:]


class Ref:
    """what the acknowledged history says: boxes -> {uid: (cid, flags)}, existing mailboxes, subscriptions"""

    def __init__(self):
        self.boxes = {'INBOX': {}}
        self.next = {'INBOX': 1}
        self.subs = set()
        self.sel = 'INBOX'
        self.ever = {}          # (box, uid) -> cid, for every uid ever acknowledged
        self.reused = []        # acknowledged uids that were not above every uid acknowledged for that mailbox before

    def copy(self):
        r = Ref()
        r.boxes = {b: dict(m) for b, m in self.boxes.items()}
        r.next = dict(self.next)
        r.subs = set(self.subs)
        r.sel = self.sel
        r.ever = dict(self.ever)
        r.reused = list(self.reused)
        return r

    def _ack(self, box, uid, cid):
        before = [u for (b, u) in self.ever if b == box]
        if before and uid <= max(before):
            self.reused.append((box, uid, self.ever.get((box, uid)), cid, max(before)))

    def apply(self, line, reply):
        """apply one acknowledged command (reply is the server's; only OK replies change anything)"""
        tg = None
        try:
            tg = imapresp.tagged(imapresp.parse(reply.encode('latin1')), b't')
        except imapresp.Malformed:
            pass
        if tg is None or tg[1] != b'OK':
            return
        m = re.match(r'APPEND (\S+) \(([^)]*)\) \{(\d+)\+\}', line)
        if m:
            box = m.group(1)
            uid = int(re.search(rb'\[APPENDUID \d+ (\d+)\]', tg[2]).group(1))
            cid = l3.cid_of_size(int(m.group(3)))
            fl = tuple(sorted(l3.RFLAGS[f.lower().encode()] for f in m.group(2).split() if f.lower().encode() in l3.RFLAGS and l3.RFLAGS[f.lower().encode()] < 5))
            self._ack(box, uid, cid)
            self.boxes[box][uid] = (cid, fl)
            self.ever[(box, uid)] = cid
            return
        m = re.match(r'UID STORE (\d+) ([+-]?)FLAGS \(([^)]*)\)', line)
        if m:
            uid = int(m.group(1))
            if uid in self.boxes[self.sel]:
                cid, fl = self.boxes[self.sel][uid]
                op = set(l3.RFLAGS[f.lower().encode()] for f in m.group(3).split())
                cur = set(fl)
                cur = op if m.group(2) == '' else (cur | op if m.group(2) == '+' else cur - op)
                self.boxes[self.sel][uid] = (cid, tuple(sorted(cur)))
            return
        if line.startswith('EXPUNGE') or line.startswith('CLOSE'):
            self.boxes[self.sel] = {u: v for u, v in self.boxes[self.sel].items() if 3 not in v[1]}
            return
        m = re.match(r'UID EXPUNGE (\d+)', line)
        if m:
            u = int(m.group(1))
            if u in self.boxes[self.sel] and 3 in self.boxes[self.sel][u][1]:
                del self.boxes[self.sel][u]
            return
        m = re.match(r'UID (COPY|MOVE) ([\d:,]+) (\S+)', line)
        if m:
            dest = m.group(3)

            def uids(spec):
                out = []
                for t in spec.split(','):
                    lo, _, hi = t.partition(':')
                    out += list(range(int(lo), int(hi or lo) + 1))
                return out
            mm = re.search(rb'\[COPYUID \d+ ([\d:,]+) ([\d:,]+)\]', reply.encode('latin1'))
            if mm:
                for u, du in zip(uids(mm.group(1).decode()), uids(mm.group(2).decode())):
                    if u in self.boxes[self.sel]:
                        cid, fl = self.boxes[self.sel][u]
                        self._ack(dest, du, cid)
                        self.boxes[dest][du] = (cid, fl)
                        self.ever[(dest, du)] = cid
                        if m.group(1) == 'MOVE':
                            del self.boxes[self.sel][u]
            return
        m = re.match(r'CREATE (\S+)', line)
        if m:
            self.boxes.setdefault(m.group(1), {})
            return
        m = re.match(r'RENAME (\S+) (\S+)', line)
        if m and m.group(1) in self.boxes:
            self.boxes[m.group(2)] = self.boxes.pop(m.group(1))
            for (b, u), c in list(self.ever.items()):
                if b == m.group(1):
                    self.ever[(m.group(2), u)] = c
            return
        m = re.match(r'SUBSCRIBE (\S+)', line)
        if m:
            self.subs.add(m.group(1))
            return
        m = re.match(r'UNSUBSCRIBE (\S+)', line)
        if m:
            self.subs.discard(m.group(1))
            return
        m = re.match(r'SELECT (\S+)', line)
        if m:
            self.sel = m.group(1)


async def recover(base, layout):
    """what a fresh server serves: ({box: {uid: (cid, flags)}}, {box: validity}, subscribed set, problems)"""
    from pymap.imap import IMAPServer
    problems = []
    cfg, login = await backends.make_maildir(base, layout=layout, users=[('u', 'p', ())], bad_command_limit=None)
    srv = IMAPServer(login, cfg)
    c = wire.Client(srv)
    await c.start()
    raw = await c.send(b'r LOGIN u p\r\n')
    if not raw.startswith(b'r OK'):
        problems.append(f'LOGIN after restart: {raw[:120]!r}')
        return {}, {}, set(), problems
    raw = await c.send(b'r LIST "" *\r\n')
    if b'r OK' not in raw:
        problems.append(f'LIST after restart: {raw[-160:]!r} {c.crashed()!r}')
        return {}, {}, set(), problems
    names = [imapresp.atom(r[4]).decode() if isinstance(r[4], imapresp.Tok) else '?' for r in imapresp.untagged(imapresp.parse(raw))
             if imapresp.atom(r[1]) == b'LIST' and b'\\Noselect' not in [imapresp.atom(a) for a in r[2]]]
    boxes = {}
    validity = {}
    for n in names:
        if c.task.done():
            problems.append(f'connection died after restart: {c.crashed()!r}')
            break
        raw = await c.send(b'r EXAMINE ' + n.encode() + b'\r\n')
        if b'r OK' not in raw:
            problems.append(f'EXAMINE {n} after restart: {raw[-160:]!r} {c.crashed()!r}')
            continue
        validity[n] = int(re.search(rb'\[UIDVALIDITY (\d+)\]', raw).group(1))
        uidnext = int(re.search(rb'\[UIDNEXT (\d+)\]', raw).group(1))
        raw = await c.send(b'r UID FETCH 1:* (UID FLAGS RFC822.SIZE)\r\n')
        if b'r OK' not in raw:
            problems.append(f'FETCH in {n} after restart: {raw[-160:]!r} {c.crashed()!r}')
            continue
        msgs = {}
        for resp in imapresp.parse(raw):
            f = imapresp.fetch_items(resp)
            if f:
                uid = int(f[1][b'UID'].val)
                if uid in msgs:
                    problems.append(f'UID {uid} listed twice in {n}')
                msgs[uid] = (l3.cid_of_size(int(f[1][b'RFC822.SIZE'].val), lf=True), l3.canon_flags(f[1][b'FLAGS'])[0])
        if msgs and uidnext <= max(msgs):
            problems.append(f'UIDNEXT {uidnext} announced for {n} after the restart, but UID {max(msgs)} exists')
        boxes[n] = msgs
    subs = set()
    if not c.task.done():
        raw = await c.send(b'r LSUB "" *\r\n')
        if b'r OK' not in raw:
            problems.append(f'LSUB after restart: {raw[-160:]!r}')
        else:
            subs = {imapresp.atom(r[4]).decode() for r in imapresp.untagged(imapresp.parse(raw)) if imapresp.atom(r[1]) == b'LSUB'}
    await c.eof()
    return boxes, validity, subs, problems


def history_lines(r, kind):
    """-> list of command lines (str). messages are identified by their size"""
    cid = [1]

    def app(box='INBOX', flags=''):
        body = l3.msg_bytes(cid[0]).decode('latin1')
        cid[0] += 1
        return f'APPEND {box} ({flags}) {{{len(body)}+}}\r\n{body}'
    if kind == 'model':
        # append / expunge / flag histories on INBOX only (the shapes MaildirFS models)
        lines = [app(), app(flags='\\Seen')]
        n = 2
        for _ in range(r.randint(1, 4)):
            x = r.random()
            if x < 0.4:
                lines.append(app(flags=r.choice(['', '\\Flagged', '\\Seen \\Answered'])))
                n += 1
            elif x < 0.7:
                lines.append(f'UID STORE {r.randint(1, n)} {r.choice(["+", "-", ""])}FLAGS ({r.choice(["\\Seen", "\\Deleted", "\\Flagged \\Draft"])})')
            elif x < 0.9:
                u = r.randint(1, n)
                lines.append(f'UID STORE {u} +FLAGS (\\Deleted)')
                lines.append(f'UID EXPUNGE {u}')
            else:
                lines.append('CHECK')
        return lines
    if kind == 'newest':
        # the newest message leaves the mailbox (moved away, or expunged and swept by CHECK) while older ones stay; what arrives next must not get its UID
        lines = [app(), 'CREATE other', app(flags='\\Seen'), app()]
        if r.random() < 0.5:
            lines.append('UID MOVE 3 other')
        else:
            lines += ['UID STORE 3 +FLAGS (\\Deleted)', 'UID EXPUNGE 3', 'CHECK']
        lines.append(r.choice([app(), 'SELECT other\r\nt UID COPY 1 INBOX'.split('\r\n')[0]]))
        lines.append(app())
        return lines
    lines = [app(), 'CREATE other', app(flags='\\Seen'), app('other')]
    n = 2
    if kind not in ('moves',) and r.random() < 0.35:
        lines += ['CREATE edge&IAM-', 'SUBSCRIBE edge&IAM-']
    if kind == 'moves':
        # C14 on maildir: MOVE / COPY cut by a process kill, with and without a stale record in the destination
        if r.random() < 0.6:
            lines += ['SELECT other', 'UID STORE 1 +FLAGS (\\Deleted)', 'EXPUNGE', 'SELECT INBOX']
        for _ in range(r.randint(1, 2)):
            lines.append(r.choice([f'UID MOVE {r.randint(1, 2)} other', 'UID MOVE 1:2 other', f'UID COPY {r.randint(1, 2)} other']))
        return lines
    for _ in range(r.randint(2, 5)):
        x = r.random()
        if x < 0.2:
            lines.append(app(r.choice(['INBOX', 'other'])))
            n += 1
        elif x < 0.35:
            lines.append(f'UID STORE {r.randint(1, 3)} +FLAGS ({r.choice(["\\Seen", "\\Deleted", "\\Answered"])})')
        elif x < 0.42:
            # leave a stale record behind in the destination (an EXPUNGE there, no CHECK), then come back
            lines += ['SELECT other', 'UID STORE 1 +FLAGS (\\Deleted)', 'EXPUNGE', 'SELECT INBOX']
        elif x < 0.5:
            lines.append(f'UID COPY {r.randint(1, 3)} other')
        elif x < 0.65:
            lines.append(f'UID MOVE {r.randint(1, 3)} other')
        elif x < 0.75:
            lines.append('EXPUNGE')
        elif x < 0.85:
            # `edge&IAM-` is the name `edge` + U+2003 (EM SPACE): an atom on the wire, white space at its edge in the subscriptions file
            lines.append(r.choice(['SUBSCRIBE other', 'SUBSCRIBE INBOX', 'UNSUBSCRIBE other', 'CREATE edge&IAM-\r\nt SUBSCRIBE edge&IAM-'.split('\r\nt ')[0], 'SUBSCRIBE edge&IAM-']))
        elif x < 0.92:
            lines.append(r.choice(['CREATE third', 'CREATE a/b', 'RENAME other renamed']))
            if lines[-1].startswith('RENAME'):
                lines = [l for l in lines]      # later commands naming `other` will be refused: fine
        else:
            lines.append('CHECK')
    return lines


KIND_RULES = [
    (re.compile(r'^utime '), None),
    (re.compile(r'^create /u/(\.[^/]+/|[^/]+/)*tmp/'), 'createTmp'),
    (re.compile(r'^(link|rename) /u/(\.[^/]+/|[^/]+/)*tmp/'), 'link'),
    (re.compile(r'^(remove|unlink) /u/(\.[^/]+/|[^/]+/)*tmp/'), 'removeTmp'),
    (re.compile(r'^create /u/(.*/)?dovecot-uidlist\.lock'), 'lockCreate'),
    (re.compile(r'^(remove|unlink) /u/(.*/)?dovecot-uidlist\.lock'), 'lockRemove'),
    (re.compile(r'^create (TMP:|/u/(.*/)?tmp[a-z0-9_]{8}$)'), None),              # the temp file of the atomic writer
    (re.compile(r'^(rename|replace) (TMP:|/u/(.*/)?tmp[a-z0-9_]{8}$)'), 'renameUL'),
    (re.compile(r'^rename /u/(\.[^/]+/|[^/]+/)*(cur|new)/'), 'renameInfo'),
    (re.compile(r'^(remove|unlink) /u/(\.[^/]+/|[^/]+/)*(cur|new)/'), 'removeFile'),
]


def abstract_ops(ops, upto=None):
    """[(index, abstract kind)] of the recorded calls: duplicates (os.open + open of one file), utime, the writer's temp file
    and lock cycles in which nothing is written (`reset()` with nothing to adopt) are not operations of the model"""
    out = []
    prev = None
    for i, (kind, path) in enumerate(ops):
        s = f'{kind} {path}'
        if s == prev and kind == 'create':
            continue
        prev = s
        for rx, name in KIND_RULES:
            if rx.search(s):
                if name is not None:
                    out.append((i, name))
                break
        else:
            out.append((i, '?' + s[:60]))
    # empty lock cycles
    keep = []
    j = 0
    while j < len(out):
        if out[j][1] == 'lockCreate' and j + 1 < len(out) and out[j + 1][1] == 'lockRemove':
            j += 2
            continue
        keep.append(out[j])
        j += 1
    if upto is not None:
        keep = [x for x in keep if x[0] < upto]
    return [k for _, k in keep] if upto is None else keep


def worker(job):
    seed, nhist, kinds, configs = job
    r = random.Random(seed)
    part = Part()
    work = tempfile.mkdtemp(prefix='pymap-verif-c15-', dir=backends.SCRATCH_ROOT)
    try:
        for h in range(nhist):
            kind = kinds[h % len(kinds)]
            layout, other_fs = configs[h % len(configs)]
            lines = history_lines(r, kind)
            with guarded(part, 'C15 history', dict(history=lines, layout=layout)):
                one_history(part, r, work, lines, layout, other_fs, kind)
    finally:
        backends.rmtree(work)
    return part.result()


def one_history(part, r, work, lines, layout, other_fs, kind):
    hist_path = os.path.join(work, 'hist.json')
    ack_path = os.path.join(work, 'ack.log')
    json.dump(lines, open(hist_path, 'w'))
    if other_fs:
        root_tmp = tempfile.mkdtemp(prefix='pymap-verif-c15tmp-', dir='/var/tmp' if os.path.isdir('/var/tmp') else '/tmp')
    else:
        root_tmp = None
    case = dict(history=[l.split('\r\n')[0] for l in lines], layout=layout, tmp_on_other_fs=bool(other_fs))
    try:
        base = tempfile.mkdtemp(prefix='store-', dir=work)
        rc, recs, err = run_child(base, layout, hist_path, -1, ack_path, root_tmp)
        backends.rmtree(base)
        total = next((x['total'] for x in recs if 'total' in x), None)
        if rc != 0 or total is None:
            part.violation('monitor', f'the history does not run to its end without any crash (exit {rc}): {err[-300:]} (tmp on another filesystem: {bool(other_fs)})', case,
                           signature='history-failed' + ('-other-fs' if other_fs else ''))
            return
        full = [x for x in recs if 'i' in x]
        for x in full:
            if '[SERVERBUG]' in x['reply']:
                part.violation('monitor', f'internal error while running {lines[x["i"]][:60]!r}: {x["reply"][-120:]!r}', case, signature='history-serverbug')
                return
        # ---- no crash at all: every UID acknowledged for a mailbox is above every UID acknowledged for it before (no message is ever given a UID that
        # named another one - whether or not that one is still there)
        ref_full = Ref()
        for x in full:
            ref_full.apply(lines[x['i']], x['reply'])
        for box, uid, was, now, high in ref_full.reused:
            part.violation('monitor', f'{layout}: mailbox {box}: UID {uid} was acknowledged for message {now} although UID {high} had been acknowledged there before'
                           + (f' (UID {uid} itself named message {was})' if was is not None else ''), case, signature='uid-reused')
        mcmds = None
        if kind == 'model':
            mcmds, keymap = model_commands(full, lines)
            if mcmds:
                res = batch([f"mfs {';'.join(mcmds[:i + 1])} 99" for i in range(len(mcmds))])
                j = 0
                for x in full:
                    if x['i'] not in keymap['cmd_of']:
                        continue
                    kinds_real = abstract_ops(x['ops'])
                    kinds_model = res[keymap['cmd_of'][x['i']]].split(' ')[2].split(',')
                    part.stat('trace-compared')
                    if kinds_real != kinds_model:
                        part.violation('correspondence', f'system calls of {lines[x["i"]][:50]!r}: recorded {x["ops"]} = {kinds_real}, MaildirFS.ops gives {kinds_model}', dict(case, at=x['i']),
                                       signature='mfs-trace')
                        mcmds = None
                        break
        # ---- every crash point
        boundaries = []
        acc = 0
        for x in full:
            boundaries.append((acc, acc + len(x['ops'])))
            acc += len(x['ops'])
        # crash *before* every operation; and *immediately after* every operation that publishes a file under its final name (rename,
        # replace, link): the state on disk is then the same as before the next operation, except for whatever the process still held in
        # user-space buffers
        flat = [o for x in full for o in x['ops']]
        ks = [(k, 'before') for k in range(total)] + [(k, 'after') for k in range(min(total, len(flat))) if flat[k][0] in ('rename', 'replace', 'link')]
        for k0, mode in ks:
            k = k0 if mode == 'before' else k0 + 1
            base = tempfile.mkdtemp(prefix='store-', dir=work)
            try:
                rc, recs, err = run_child(base, layout, hist_path, k0, ack_path, root_tmp, mode)
                acked = [x for x in recs if 'i' in x]
                crash = next((x for x in recs if 'crash_at' in x), None)
                if rc != 17 or crash is None:
                    part.violation('monitor', f'crash run k={k} ended with exit {rc}: {err[-200:]}', dict(case, k=k), signature='child-failed')
                    continue
                ref = Ref()
                for x in acked:
                    ref.apply(lines[x['i']], x['reply'])
                nxt = ref.copy()
                inflight = len(acked)
                if inflight < len(lines):
                    # the command in flight, had it completed as in the uncrashed run
                    nxt.apply(lines[inflight], full[inflight]['reply'])
                lo, hi = boundaries[inflight] if inflight < len(boundaries) else (0, 0)
                inside = lo < k < hi
                # the restart is taken after the lock expiration (600 s): a lock file left by the killed process is aged
                for root, dirs, files in os.walk(base):
                    for f in files:
                        if f.endswith('.lock'):
                            # a little more than the expiration, not back to the epoch: a clock other than the wall clock in the age computation would
                            # make an epoch-old file look expired and a 700-second-old one not
                            os.utime(os.path.join(root, f), (time.time() - 700, time.time() - 700))
                            part.stat('stale-lock-aged')
                boxes, validity, subs, problems = asyncio.run(recover(base, layout))
                ckase = dict(case, k=k, crash_mode=mode, in_flight=lines[inflight].split('\r\n')[0] if inflight < len(lines) else None, crash_op=[crash['op'], crash['path']])
                part.case(key=repr((case['history'], layout, bool(other_fs), k, mode)), nontrivial=inside, sample=ckase)
                part.trace()
                for pr in problems:
                    part.violation('monitor', f'after a crash at operation {k} ({crash["op"]} {crash["path"]}) the restarted server fails: {pr}', ckase, signature='restart-fails')
                if problems:
                    continue
                judge(part, ref, nxt, boxes, subs, ckase)
                if mcmds and kind == 'model' and inflight < len(lines) and inflight in keymap['cmd_of']:
                    ci = keymap['cmd_of'][inflight]
                    out = batch([f"mfs {';'.join(mcmds[:ci + 1])} {len(abstract_ops(full[inflight]['ops'], upto=k - lo))}"])[0]
                    listing = out.split(' ')[3]
                    muids = sorted(int(t.split(':')[0]) for t in listing.split(';')) if listing != '-' else []
                    ruids = sorted(boxes.get('INBOX', {}))
                    part.stat('recover-compared')
                    if muids != ruids:
                        part.violation('correspondence', f'after a crash at operation {k} inside {lines[inflight][:40]!r}: the restarted server serves UIDs {ruids}, '
                                       f'MaildirFS.recover of the same prefix gives {muids}', ckase, signature='mfs-recover')
            finally:
                backends.rmtree(base)
    finally:
        if root_tmp:
            backends.rmtree(root_tmp)


def model_commands(full, lines):
    """translate an INBOX-only history into MaildirFS commands (keys = append order; info = small code of the flag set)"""
    cmds = []
    cmd_of = {}
    uid_key = {}
    flags = {}
    nkey = 0

    def info(fl):
        return sum(1 << f for f in fl)
    for x in full:
        line = lines[x['i']]
        if '[' in x['reply'] and 'APPENDUID' in x['reply']:
            nkey += 1
            uid = int(re.search(r'APPENDUID \d+ (\d+)', x['reply']).group(1))
            m = re.match(r'APPEND \S+ \(([^)]*)\)', line)
            fl = sorted(l3.RFLAGS[f.lower().encode()] for f in m.group(1).split())
            uid_key[uid] = nkey
            flags[uid] = set(fl)
            cmd_of[x['i']] = len(cmds)
            cmds.append(f'a:{nkey}:{info(fl)}')
            continue
        m = re.match(r'UID STORE (\d+) ([+-]?)FLAGS \(([^)]*)\)', line)
        if m and ' OK' in x['reply']:
            uid = int(m.group(1))
            if uid not in uid_key:
                if x['ops']:
                    return None, None
                continue
            op = set(l3.RFLAGS[f.lower().encode()] for f in m.group(3).split())
            new = op if m.group(2) == '' else (flags[uid] | op if m.group(2) == '+' else flags[uid] - op)
            if new != flags[uid]:
                flags[uid] = new
                cmd_of[x['i']] = len(cmds)
                cmds.append(f'f:{uid_key[uid]}:{info(sorted(new))}')
            elif x['ops']:
                return None, None
            continue
        m = re.match(r'UID EXPUNGE (\d+)', line)
        if m and ' OK' in x['reply']:
            uid = int(m.group(1))
            if uid in uid_key and 3 in flags[uid]:
                cmd_of[x['i']] = len(cmds)
                cmds.append(f'e:{uid_key[uid]}')
                del uid_key[uid]
            elif x['ops']:
                return None, None
            continue
        if line == 'CHECK' and ' OK' in x['reply']:
            cmd_of[x['i']] = len(cmds)
            cmds.append('c')
            continue
    return cmds, dict(cmd_of=cmd_of)


def judge(part, ref, nxt, boxes, subs, case):
    k = case['k']
    for box in set(ref.boxes) | set(nxt.boxes):
        a = ref.boxes.get(box)
        b = nxt.boxes.get(box)
        got = boxes.get(box)
        if got is None:
            if a is not None and b is not None and box in ref.boxes and box in nxt.boxes:
                part.violation('monitor', f'crash at operation {k}: mailbox {box} whose creation was acknowledged is gone after the restart (served: {sorted(boxes)})', case,
                               signature='mailbox-lost')
            continue
        a = a or {}
        b = b if b is not None else a
        for uid in set(a) | set(b):
            sa, sb = a.get(uid), b.get(uid)
            g = got.get(uid)
            if g is None:
                if sa is not None and sb is not None:
                    part.violation('monitor', f'crash at operation {k}: acknowledged message uid {uid} (content {sa[0]}) of {box} is not served after the restart; served {sorted(got.items())}',
                                   case, signature='message-lost')
                elif sa is not None:
                    # the command in flight (MOVE, EXPUNGE) may have taken the message away, but it may not have left it in its
                    # mailbox under another number: same mailbox, same UIDVALIDITY, same message => same UID
                    again = [u2 for u2, g2 in got.items() if u2 not in a and u2 not in b and g2[0] == sa[0]]
                    if again:
                        part.violation('monitor', f'crash at operation {k}: acknowledged message uid {uid} (content {sa[0]}) of {box} is served after the restart under uid {again[0]} '
                                       f'of the same mailbox instead', case, signature='message-renumbered')
                continue
            if g[0] != (sa or sb)[0]:
                part.violation('monitor', f'crash at operation {k}: uid {uid} of {box} was acknowledged for content {(sa or sb)[0]} and now denotes content {g[0]}', case,
                               signature='uid-other-content')
                continue
            ok_flags = {s[1] for s in (sa, sb) if s is not None}
            if g[1] not in ok_flags:
                part.violation('monitor', f'crash at operation {k}: uid {uid} of {box} has flags {g[1]} after the restart; acknowledged {sa[1] if sa else None}'
                               + (f', command in flight would give {sb[1]}' if sb and sb != sa else ''), case, signature='flags-lost')
    # conservation: a message content is served at least as often as both the acknowledged state and the state after the command in flight
    # have it (a MOVE in flight may leave it on either side, never on neither; an EXPUNGE in flight may take it away)
    def count(bx):
        c = {}
        for msgs in bx.values():
            for v in msgs.values():
                c[v[0]] = c.get(v[0], 0) + 1
        return c
    ca, cb, cg = count(ref.boxes), count(nxt.boxes), count(boxes)
    for cid in ca:
        need = min(ca[cid], cb.get(cid, 0))
        if cg.get(cid, 0) < need and all(b_ in boxes for b_ in set(ref.boxes) | set(nxt.boxes)):
            part.violation('monitor', f'crash at operation {k}: message content {cid} is held {ca[cid]} time(s) by the acknowledged state and {cb.get(cid, 0)} time(s) after the command '
                           f'in flight, but the restarted server serves it {cg.get(cid, 0)} time(s): {boxes}', case, signature='message-vanished')
    for (box, uid), cid in ref.ever.items():
        got = boxes.get(box, {}).get(uid)
        if got is not None and got[0] != cid:
            part.violation('monitor', f'crash at operation {k}: uid {uid} of {box} was once acknowledged for content {cid}, after the restart it denotes content {got[0]}', case,
                           signature='uid-reused')
    # a message of the command in flight that was adopted must have a uid above everything acknowledged in that mailbox
    for box, got in boxes.items():
        known = set(ref.boxes.get(box, {})) | set(nxt.boxes.get(box, {}))
        acked_max = max([u for (b_, u) in ref.ever if b_ == box], default=0)
        for uid in got:
            if uid not in known and uid <= acked_max:
                part.violation('monitor', f'crash at operation {k}: after the restart {box} serves an unacknowledged message under uid {uid}, not above the acknowledged uid {acked_max}', case,
                               signature='adopted-uid-low')
    want_subs = ref.subs & nxt.subs
    missing = {s for s in want_subs if s not in subs and s in boxes}
    if missing:
        part.violation('monitor', f'crash at operation {k}: acknowledged subscriptions {sorted(missing)} are gone after the restart (LSUB: {sorted(subs)})', case, signature='subscription-lost')


def run(ctx):
    ctx.rep.rule = RULE
    ctx.rep.assumptions = ['the restart is observed after the lock-file expiration (600 s): a lock file left by the killed process is aged by the harness; until then pymap waits for it and answers NO',
                           'crash = process kill between two filesystem operations (the child exits instead of performing operation k); no power-loss / fsync reasoning, no torn writes',
                           'no concurrent foreign writer (Dovecot) on the store',
                           'the recorder sees Python-level os/open calls, which is all pymap and the mailbox module use']
    nw = ctx.workers
    configs = [('++', False), ('fs', False), ('++', True), ('fs', True)]
    jobs = []
    for k in range(nw):
        jobs.append((ctx.seed * 1000 + 150 + k, ctx.budget(1, 12), [['model', 'full', 'newest'], ['full', 'newest', 'model'], ['newest', 'model', 'full'], ['full', 'model', 'newest']][k % 4], configs[k % 4:] + configs[:k % 4]))
    ctx.rep.extra['fault_enumeration'] = 'every filesystem-operation boundary of every history is a crash point (exhaustive per history)'
    ctx.pmap(worker, jobs)


def replay(case):
    case = case.get('case', case)
    print(json.dumps(case, indent=1)[:2000])
    print('re-run the check with the same VERIF_SEED to reproduce')
    return 0
