"""C04 — UIDs are strictly increasing, never reused, and truthfully reported.

Tie: command-level engine (real connections on dict vs Lean `Server`, whose `append`/`copyMove`/`select`/`status` go
through `Mailbox.push`, the function C04_uid_monotone / C04_uidnext / C04_appenduid / C04_copyuid_pairing are about);
the APPENDUID / COPYUID / UIDNEXT values are part of the per-command diff.
Monitor (black box, dict + both maildir layouts, 1-3 sessions): all mailboxes are dumped by a probe after every command;
per mailbox every UID handed out (APPENDUID, COPYUID destination) must exceed every UID ever seen there before; a (mailbox,
UID) pair never denotes two different contents over the whole history; UIDNEXT from SELECT/STATUS exceeds every existing UID
and is not above the next UID actually assigned; the APPENDUID uid holds the appended content; COPYUID pairs, expanded in
order, connect equal contents.  RENAME histories (UIDs and UIDVALIDITY travel with the mailbox; a renamed INBOX leaves a
fresh one) are a wire-level scenario family of their own.  The maildir crash/restart half is checked by C15 (C15_recover).
"""
from __future__ import annotations
import asyncio
import random
import re

from .common import l3, wire, backends, imapresp
from .common.report import Part, guarded

RULE = ('histories of APPEND/COPY/MOVE/EXPUNGE/UID EXPUNGE/STATUS/SELECT by 1-3 sessions over 3 mailboxes, biased to expunge-highest-then-append and to '
        'copies into the mailbox itself, on dict, maildir(++), maildir(fs), probe dump after every command; plus RENAME histories; non-trivial = a UID was '
        'assigned in a mailbox after its highest message had been expunged or moved away; distinct by program text and backend')

PROFILE = dict(weights=dict(select=4, close=1, noop=3, check=1, append=22, store=8, fetch=2, expunge=12, uidexpunge=4, copy=12, move=10, search=0, status=8),
               examine=0.1, recent_in_flags=0.0, final_noops=False)


def uid_monitor(backend, dumps):
    def monitor(part, case, canon, final, shadows):
        prog = case['program']
        seen_max = [0, 0, 0]          # highest uid ever seen/assigned per box
        content = {}                  # (box, uid) -> cid
        pending_next = {}             # box -> list of (command index, announced uidnext) waiting for the next assignment
        nontrivial = False
        prev = None
        for j, (op, c) in enumerate(zip(prog, canon)):
            status, code, items = c
            cur = dumps[j] if j < len(dumps) else None
            if cur is None:
                continue
            assigned = []             # (box, uid, expected cid or None)
            if status == 'OK' and op[0] == 'append' and code.startswith('APPENDUID'):
                for u in [int(x) for x in code.split()[1].split(',')]:
                    assigned.append((op[2], u, op[4]))
            if status == 'OK' and op[0] == 'copy' and code.startswith('COPYUID'):
                src = [int(x) for x in code.split()[1].split(',')]
                dst = [int(x) for x in code.split()[2].split(',')]
                if len(src) != len(dst):
                    part.violation('monitor', f'{backend}: command #{j} {op}: COPYUID source and destination sets differ in length: {code}', dict(case, at=j),
                                   signature='copyuid-length')
                if src != sorted(src) or dst != sorted(dst):
                    part.stat('copyuid-unordered')
                st = l3.sel_state(prog[:j], case['nsess'])
                sbox = st[op[1]][0] if st[op[1]] else None
                for s_, d_ in zip(src, dst):
                    want = None
                    if prev is not None and sbox is not None:
                        for (u, fl, cid, day) in prev[sbox][0]:
                            if u == s_:
                                want = cid
                    assigned.append((op[5], d_, want))
            for (b, u, want) in assigned:
                if b > 2:
                    continue
                if u <= seen_max[b]:
                    part.violation('monitor', f'{backend}: command #{j} {op} was given UID {u} in mailbox {b}, not above {seen_max[b]} which was used there before',
                                   dict(case, at=j), signature='uid-not-increasing')
                if prev is not None and prev[b][0] and seen_max[b] > max(x[0] for x in prev[b][0]):
                    nontrivial = True
                elif prev is not None and not prev[b][0] and seen_max[b] > 0:
                    nontrivial = True
                for (jn, un) in pending_next.pop(b, []):
                    if un > u:
                        part.violation('monitor', f'{backend}: UIDNEXT {un} announced by command #{jn} is above UID {u} assigned next in mailbox {b} (command #{j})',
                                       dict(case, at=j), signature='uidnext-too-high')
                found = [x for x in cur[b][0] if x[0] == u]
                if not found:
                    if not (op[0] == 'copy' and op[2] and op[5] == b):      # (a MOVE into itself is followed by nothing else removing it)
                        part.violation('monitor', f'{backend}: command #{j} {op} reports UID {u} in mailbox {b} but UID FETCH does not find it: {cur[b][0]}',
                                       dict(case, at=j), signature='reported-uid-missing')
                elif want is not None and found[0][2] != want:
                    part.violation('monitor', f'{backend}: command #{j} {op} reports UID {u} in mailbox {b}; that message has content {found[0][2]}, expected {want}',
                                   dict(case, at=j), signature='reported-uid-wrong-content')
                seen_max[b] = max(seen_max[b], u)
            # UIDNEXT announcements
            m = re.search(r'uidnext=(\d+)', code)
            if status == 'OK' and m and op[0] in ('select', 'status'):
                b = op[2]
                un = int(m.group(1))
                existing = [x[0] for x in cur[b][0]]
                if existing and un <= max(existing):
                    part.violation('monitor', f'{backend}: command #{j} {op} announces UIDNEXT {un}, but UID {max(existing)} exists', dict(case, at=j),
                                   signature='uidnext-too-low')
                if un <= seen_max[b]:
                    part.violation('monitor', f'{backend}: command #{j} {op} announces UIDNEXT {un}, but UID {seen_max[b]} was already assigned there', dict(case, at=j),
                                   signature='uidnext-reuse')
                pending_next.setdefault(b, []).append((j, un))
            # no reuse over the whole history
            for b in range(3):
                for (u, fl, cid, day) in cur[b][0]:
                    if (b, u) in content and content[(b, u)] != cid:
                        part.violation('monitor', f'{backend}: after command #{j} {op} UID {u} of mailbox {b} denotes content {cid}; earlier it denoted {content[(b, u)]}',
                                       dict(case, at=j), signature='uid-reused')
                    if prev is not None and u <= seen_max[b] and not any(x[0] == u for x in prev[b][0]) \
                            and not any(a[0] == b and a[1] == u for a in assigned):
                        part.violation('monitor', f'{backend}: after command #{j} {op} UID {u} appears in mailbox {b} although it is not above {seen_max[b]} and was not '
                                       f'there before the command (an expunged or never assigned UID came to life)', dict(case, at=j), signature='uid-resurrected')
                    content[(b, u)] = cid
                    seen_max[b] = max(seen_max[b], u)
            prev = cur
        return nontrivial
    return monitor


def worker(job):
    seed, ncases, maxlen, corpus = job
    r = random.Random(seed)
    part = Part()
    cases = [(c['backend'], c['nsess'], c['program']) for c in corpus]
    for k in range(ncases):
        backend = ['dict', 'dict', 'maildir', 'maildir-fs'][k % 4]
        nsess = r.choice([1, 2, 2, 3])
        prog = l3.gen_program(r, nsess, r.randint(5, maxlen), PROFILE, uid_base=100 if backend == 'dict' else 0)
        if nsess >= 2 and r.random() < 0.35:
            # a COPY/MOVE by a session whose view is stale: another session has just expunged a message in the middle of the set
            # (COPYUID must pair what was really copied)
            base = 100 if backend == 'dict' else 0
            st = l3.sel_state(prog, nsess)
            both = [i for i in range(nsess) if st[i] and st[i][0] == 0 and not st[i][1]]
            if len(both) < 2:
                prog += [['select', 0, 0, False], ['select', 1, 0, False]]
                both = [0, 1]
            a, b = both[0], both[1]
            prog += [['append', a, 0, [], 80 + j, 0, 0] for j in range(3)] + [['noop', a], ['noop', b], ['fetch', b, False, '1:*', ['UID', 'FLAGS']]]
            prog += [['store', b, False, f'{r.choice(["*", "2", "1", "2:3"])}', 1, [3], False], ['expunge', b, None],
                     ['copy', a, r.random() < 0.3, True, r.choice([f'{base + 1}:*', '1:*', f'{base + 1}:{base + 40}']), r.choice([1, 2]), 0]]
        cases.append((backend, nsess, prog))
    for backend, nsess, prog in cases:
        with guarded(part, f'C04 run {backend}', dict(backend=backend, nsess=nsess, program=prog)):
            dumps = []
            ext, outs, final = asyncio.run(l3.run_real(nsess, prog, backend=backend, dump_each=dumps, dumps=(backend == 'dict')))
            mon = uid_monitor(backend, dumps)
            if backend == 'dict':
                l3.judge(part, [(nsess, ext, outs, final)], 'C04', extra_monitor=mon)
            else:
                canon, errors, nt, shadows = l3.analyse(nsess, ext, outs)
                case = dict(backend=backend, nsess=nsess, program=ext)
                nt = mon(part, case, canon, final, shadows)
                part.case(key=backend + repr(ext), nontrivial=nt, sample=dict(backend=backend, program=[' '.join(map(str, o)) for o in ext[:10]]))
            part.stat('backend:' + backend)
    for k in range(max(2, ncases // 4)):
        for backend in ('dict', 'maildir', 'maildir-fs'):
            with guarded(part, f'C04 rename {backend}', dict(backend=backend, scenario='rename', seed=seed * 100 + k)):
                asyncio.run(rename_history(part, backend, random.Random(seed * 100 + k)))
            if backend != 'dict':
                with guarded(part, f'C04 delivery {backend}', dict(backend=backend, scenario='delivery', seed=seed * 100 + k)):
                    asyncio.run(delivery_history(part, backend, random.Random(seed * 100 + k + 7)))
    for k in range(max(2, ncases // 6)):
        layout = ['++', 'fs'][k % 2]
        with guarded(part, f'C04 lock contention {layout}', dict(backend='maildir', layout=layout, scenario='lock-contention', seed=seed * 100 + k)):
            asyncio.run(lock_contention(part, layout, random.Random(seed * 100 + k + 29)))
    for k in range(max(1, ncases // 8)):
        for backend in ('dict', 'maildir'):
            with guarded(part, f'C04 multiappend {backend}', dict(backend=backend, scenario='multiappend', seed=seed * 100 + k)):
                asyncio.run(multiappend_history(part, backend, random.Random(seed * 100 + k + 13)))
    return part.result()


async def multiappend_history(part, backend, r):
    """several messages in one APPEND, at every alignment of the UID counter: the n-th UID of the APPENDUID set, read in the order it is written, is where UID FETCH
    finds the n-th message; the set is strictly ascending and ends below UIDNEXT"""
    from pymap.imap import IMAPServer
    from .common import wire, backends, imapresp
    base = None
    if backend == 'dict':
        be, config = await backends.make_dict(users=[('u', 'p', ())], bad_command_limit=None)
        login = be.login
    else:
        base = backends.scratch_dir('pymap-verif-c04-')
        config, login = await backends.make_maildir(base, users=[('u', 'p', ())], bad_command_limit=None)
    try:
        srv = IMAPServer(login, config)
        c = wire.Client(srv)
        await c.start()
        await c.send(b'a LOGIN u p\r\n')
        await c.send(b'a CREATE multi\r\n')
        box = r.choice([b'INBOX', b'multi'])
        await c.send(b'a SELECT ' + box + b'\r\n')
        serial = 0
        high = 0
        for round_ in range(r.randint(6, 14)):
            n = r.choice([1, 2, 2, 3, 4, 5, 7])
            marks = []
            line = b'a APPEND ' + box
            for _ in range(n):
                serial += 1
                marks.append(b'mark-%04d' % serial)
                m_ = b'Subject: ' + marks[-1] + b'\r\n\r\nx\r\n'
                line += b' {%d+}\r\n' % len(m_) + m_
            raw = await c.send(line + b'\r\n')
            case = dict(scenario='multiappend', backend=backend, mailbox=box.decode(), round=round_, messages=n, reply=raw[-80:].decode('latin1'))
            part.case(key=f'multiappend:{backend}:{round_}:{n}:{high}', nontrivial=n > 1, sample=case)
            part.stat('multiappend')
            mt = re.search(rb'\[APPENDUID (\d+) ([0-9:,]+)\]', raw)
            if b'a OK' not in raw or not mt:
                continue
            uids = []
            for tok in mt.group(2).split(b','):
                lo, _, hi = tok.partition(b':')
                uids += list(range(int(lo), int(hi or lo) + 1)) if int(hi or lo) >= int(lo) else list(range(int(lo), int(hi) - 1, -1))
            if len(uids) != n:
                part.violation('monitor', f'{backend}: APPEND of {n} messages answered APPENDUID {mt.group(2).decode()}: {len(uids)} UIDs', case, signature='appenduid-count')
                continue
            if uids != sorted(uids) or len(set(uids)) != n or uids[0] <= high:
                part.violation('monitor', f'{backend}: APPEND of {n} messages answered APPENDUID {mt.group(2).decode()}: not strictly ascending above {high}', case, signature='appenduid-order')
            high = max([high] + uids)
            out = await c.send(b'a UID FETCH %d:%d (UID BODY.PEEK[HEADER.FIELDS (SUBJECT)])\r\n' % (min(uids), max(uids)))
            found = {}
            for resp in imapresp.parse(out):
                f = imapresp.fetch_items(resp)
                if f and b'UID' in f[1]:
                    body = next((v.val for k_, v in f[1].items() if k_.startswith(b'BODY[') and isinstance(v, imapresp.Tok)), b'')
                    found[int(f[1][b'UID'].val)] = body
            for pos, (u, mark) in enumerate(zip(uids, marks)):
                if mark not in found.get(u, b''):
                    part.violation('monitor', f'{backend}: APPEND of {n} messages answered APPENDUID {mt.group(2).decode()}: message #{pos + 1} ({mark.decode()}) is reported as UID {u}, '
                                   f'where UID FETCH finds {found.get(u, b"nothing")[:40]!r}', case, signature='appenduid-pairing')
                    break
            st = await c.send(b'a STATUS ' + box + b' (UIDNEXT)\r\n')
            mn = re.search(rb'UIDNEXT (\d+)', st)
            if mn and int(mn.group(1)) <= high:
                part.violation('monitor', f'{backend}: UIDNEXT {int(mn.group(1))} after UID {high} was assigned', case, signature='uidnext-low')
        await c.eof()
    finally:
        if base:
            backends.rmtree(base)


# ------------------------------------------------------------------ delivery by a foreign writer (maildir): files appear in new/ without a UID record
async def delivery_history(part, backend, r):
    import mailbox as pymailbox
    import os
    import re as _re
    from pymap.imap import IMAPServer
    base = backends.scratch_dir()
    log = []
    case = dict(backend=backend, scenario='delivery', log=log)
    try:
        config, login = await backends.make_maildir(base, layout='++' if backend == 'maildir' else 'fs', users=[('u', 'p', ())], bad_command_limit=None)
        srv = IMAPServer(login, config)
        seen_max = 0
        content = {}
        cid = 1

        async def session(cmds):
            c = wire.Client(srv)
            await c.start()
            await c.send(b'a LOGIN u p\r\n')
            outs = []
            for line in cmds:
                outs.append(await c.send(b'a ' + line + b'\r\n'))
                log.append(line.decode()[:50])
            await c.eof()
            return outs
        await session([b'SELECT INBOX'])             # the first login creates the user's maildir
        md = pymailbox.Maildir(os.path.join(base, 'u'), create=False)
        for step in range(r.randint(3, 8)):
            x = r.random()
            if x < 0.45:
                k = r.randint(1, 2)
                for _ in range(k):
                    md.add(pymailbox.MaildirMessage(l3.msg_bytes(cid)))         # straight into new/, as an MDA does
                    cid += 1
                log.append(f'deliver x{k}')
                nontrivial = True
            elif x < 0.6:
                body = l3.msg_bytes(cid)
                cid += 1
                outs = await session([b'APPEND INBOX {%d+}\r\n' % len(body) + body])
                m = _re.search(rb'APPENDUID \d+ (\d+)', outs[0])
                if m:
                    u = int(m.group(1))
                    if u <= seen_max:
                        part.violation('monitor', f'{backend}: APPEND after deliveries got UID {u}, not above {seen_max} (history {log})', case, signature='uid-not-increasing')
                    seen_max = max(seen_max, u)
                    content[u] = cid - 1
            elif x < 0.7 and seen_max:
                await session([b'SELECT INBOX', b'UID STORE %d +FLAGS (\\Deleted)' % seen_max, b'EXPUNGE'])
            # observe: STATUS first (a fresh open), then EXAMINE + UID FETCH
            how = r.choice(['status', 'examine', 'select'])
            if how == 'status':
                outs = await session([b'STATUS INBOX (MESSAGES UIDNEXT)', b'EXAMINE INBOX', b'UID FETCH 1:* (UID RFC822.SIZE)'])
                m = _re.search(rb'UIDNEXT (\d+)', outs[0])
            else:
                outs = await session([(b'EXAMINE' if how == 'examine' else b'SELECT') + b' INBOX', b'NOOP', b'UID FETCH 1:* (UID RFC822.SIZE)'])
                m = _re.search(rb'\[UIDNEXT (\d+)\]', outs[0])
            uidnext = int(m.group(1)) if m else None
            msgs = {}
            for resp in imapresp.parse(outs[2]):
                f = imapresp.fetch_items(resp)
                if f:
                    msgs[int(f[1][b'UID'].val)] = l3.cid_of_size(int(f[1][b'RFC822.SIZE'].val), lf=True)
            if uidnext is not None and msgs and uidnext <= max(msgs):
                part.violation('monitor', f'{backend}: {how.upper()} reports UIDNEXT {uidnext} but UID {max(msgs)} exists (history {log})', case, signature='uidnext-too-low')
            for u, c_ in msgs.items():
                if u in content and content[u] != c_:
                    part.violation('monitor', f'{backend}: UID {u} denoted content {content[u]}, now {c_} (history {log})', case, signature='uid-reused')
                if u not in content and u <= seen_max:
                    part.violation('monitor', f'{backend}: a delivered message was given UID {u}, not above {seen_max} already used (history {log})', case, signature='uid-not-increasing')
                content[u] = c_
            if msgs:
                seen_max = max(seen_max, max(msgs))
        part.case(key=backend + ':delivery:' + repr(log), nontrivial=any(l_.startswith('deliver') for l_ in log))
        part.stat('delivery-histories')
    finally:
        backends.rmtree(base)


# ------------------------------------------------------------------ RENAME histories (wire level, monitor only)
async def rename_history(part, backend, r):
    from pymap.imap import IMAPServer
    base = None
    if backend == 'dict':
        be, config = await backends.make_dict(users=[('u', 'p', ())], bad_command_limit=None)
        login = be.login
    else:
        base = backends.scratch_dir()
        config, login = await backends.make_maildir(base, layout='++' if backend == 'maildir' else 'fs', users=[('u', 'p', ())], bad_command_limit=None)
    srv = IMAPServer(login, config)
    c = wire.Client(srv)
    log = []
    case = dict(backend=backend, scenario='rename', log=log)
    try:
        await c.start()
        await c.send(b'a LOGIN u p\r\n')
        names = ['INBOX']
        truth = {'INBOX': dict(validity=None, msgs={}, maxuid=0)}       # name -> what we know: uid -> cid
        cid = 1

        async def cmd(line):
            out = await c.send(line)
            log.append(line.decode('latin1')[:60].strip())
            return out, imapresp.tagged(imapresp.parse(out))

        async def observe(name):
            out, tg = await cmd(b'a EXAMINE ' + name.encode() + b'\r\n')
            if tg is None or tg[1] != b'OK':
                return None
            val = int(re.search(rb'\[UIDVALIDITY (\d+)\]', out).group(1))
            nxt = int(re.search(rb'\[UIDNEXT (\d+)\]', out).group(1))
            out, _ = await cmd(b'a UID FETCH 1:* (UID RFC822.SIZE)\r\n')
            msgs = {}
            for resp in imapresp.parse(out):
                f = imapresp.fetch_items(resp)
                if f:
                    msgs[int(f[1][b'UID'].val)] = l3.cid_of_size(int(f[1][b'RFC822.SIZE'].val), lf=backend != 'dict')
            await cmd(b'a CLOSE\r\n')
            return val, nxt, msgs

        def check(name, obs, why):
            t = truth[name]
            val, nxt, msgs = obs
            if t['validity'] is None:
                t['validity'] = val
            if val == t['validity']:
                if msgs != t['msgs']:
                    part.violation('monitor', f'{backend}: {why}: mailbox {name} (same UIDVALIDITY {val}) holds {msgs}, expected {t["msgs"]}', case,
                                   signature='rename-contents')
                if msgs and nxt <= max(msgs):
                    part.violation('monitor', f'{backend}: {why}: UIDNEXT {nxt} of {name} not above existing UID {max(msgs)}', case, signature='uidnext-too-low')
                if nxt <= t['maxuid']:
                    part.violation('monitor', f'{backend}: {why}: UIDNEXT {nxt} of {name} not above UID {t["maxuid"]} assigned earlier under the same UIDVALIDITY', case,
                                   signature='uidnext-reuse')
            else:
                part.violation('monitor', f'{backend}: {why}: UIDVALIDITY of {name} changed from {t["validity"]} to {val}', case, signature='validity-changed')
        nontrivial = False
        for step in range(r.randint(4, 12)):
            x = r.random()
            if x < 0.35:
                name = r.choice(names)
                body = l3.msg_bytes(cid)
                out, tg = await cmd(b'a APPEND ' + name.encode() + b' {%d+}\r\n' % len(body) + body + b'\r\n')
                if tg and tg[1] == b'OK' and tg[2]:
                    m = re.match(rb'\[APPENDUID (\d+) (\d+)\]', tg[2])
                    val, u = int(m.group(1)), int(m.group(2))
                    t = truth[name]
                    if t['validity'] is None:
                        t['validity'] = val
                    if val != t['validity']:
                        part.violation('monitor', f'{backend}: APPENDUID validity {val} differs from {t["validity"]} of {name}', case, signature='validity-changed')
                    if u <= t['maxuid']:
                        part.violation('monitor', f'{backend}: APPEND to {name} got UID {u}, not above {t["maxuid"]}', case, signature='uid-not-increasing')
                    t['msgs'][u] = cid
                    t['maxuid'] = max(t['maxuid'], u)
                cid += 1
            elif x < 0.5:
                new = r.choice(['a', 'b', 'a/x', 'c']) + str(r.randint(0, 2))
                out, tg = await cmd(b'a CREATE ' + new.encode() + b'\r\n')
                if tg and tg[1] == b'OK' and new not in names:
                    names.append(new)
                    truth[new] = dict(validity=None, msgs={}, maxuid=0)
            elif x < 0.8 and len(names) > 0:
                src = r.choice(names)
                dst = r.choice(['r', 's', 't/u']) + str(r.randint(0, 3))
                out, tg = await cmd(b'a RENAME ' + src.encode() + b' ' + dst.encode() + b'\r\n')
                if tg and tg[1] == b'OK':
                    nontrivial = True
                    moved = [n for n in names if n == src or n.startswith(src + '/')] if src != 'INBOX' else ['INBOX']
                    for n in moved:
                        nn = dst + n[len(src):]
                        truth[nn] = truth.pop(n)
                        names[names.index(n)] = nn
                    if src == 'INBOX':
                        names.append('INBOX')
                        truth['INBOX'] = dict(validity=None, msgs={}, maxuid=0)
                        obs = await observe('INBOX')
                        if obs is not None:
                            if obs[2]:
                                part.violation('monitor', f'{backend}: after RENAME INBOX the new INBOX is not empty: {obs[2]}', case, signature='rename-inbox')
                            if obs[0] == truth[dst]['validity']:
                                # same validity is only acceptable if no uid can ever be reused: the new INBOX must continue above the old one's uids
                                if obs[1] <= truth[dst]['maxuid']:
                                    part.violation('monitor', f'{backend}: the INBOX left behind by RENAME has the same UIDVALIDITY {obs[0]} and UIDNEXT {obs[1]} '
                                                   f'<= a UID already used ({truth[dst]["maxuid"]})', case, signature='rename-inbox-validity')
                            truth['INBOX']['validity'] = obs[0]
                    for n in [dst + m_[len(src):] for m_ in moved]:
                        obs = await observe(n)
                        if obs is None:
                            part.violation('monitor', f'{backend}: after RENAME {src} {dst}, {n} cannot be examined', case, signature='rename-lost')
                        else:
                            check(n, obs, f'after RENAME {src} {dst}')
            else:
                name = r.choice(names)
                obs = await observe(name)
                if obs is not None:
                    check(name, obs, 'observation')
        part.case(key=backend + ':rename:' + repr(log), nontrivial=nontrivial)
        part.stat('rename-histories')
    finally:
        await c.eof()
        if base:
            backends.rmtree(base)


CORPUS = [
    # expunge the highest message, then append: the UID must not come back
    dict(backend='dict', nsess=1, program=[['select', 0, 0, False], ['append', 0, 0, [], 1, 0, 0], ['append', 0, 0, [3], 2, 0, 0], ['expunge', 0, None], ['status', 0, 0],
                                           ['append', 0, 0, [], 3, 0, 0], ['copy', 0, False, False, '1:*', 0, 0], ['copy', 0, True, False, '*', 1, 0], ['status', 0, 1], ['select', 0, 1, False]]),
    dict(backend='maildir', nsess=1, program=[['select', 0, 0, False], ['append', 0, 0, [], 1, 0, 0], ['append', 0, 0, [3], 2, 0, 0], ['expunge', 0, None], ['status', 0, 0],
                                              ['append', 0, 0, [], 3, 0, 0], ['copy', 0, True, False, '*', 1, 0], ['select', 0, 1, False], ['copy', 0, True, False, '*', 0, 0],
                                              ['select', 0, 0, False], ['status', 0, 0]]),
    # move a message away and back: the old UID must stay dead (D38), also within one mailbox (D37)
    dict(backend='maildir', nsess=1, program=[['append', 0, 0, [], 1, 0, 0], ['append', 0, 0, [], 2, 0, 0], ['select', 0, 0, False], ['copy', 0, True, True, '2', 1, 0],
                                              ['select', 0, 1, False], ['copy', 0, True, True, '1', 0, 0], ['select', 0, 0, False], ['status', 0, 0],
                                              ['copy', 0, True, True, '1', 0, 0], ['status', 0, 0], ['append', 0, 0, [], 3, 0, 0]]),
    dict(backend='maildir-fs', nsess=1, program=[['append', 0, 0, [], 1, 0, 0], ['append', 0, 0, [], 2, 0, 0], ['select', 0, 0, False], ['copy', 0, True, True, '2', 1, 0],
                                                 ['select', 0, 1, False], ['copy', 0, True, True, '1', 0, 0], ['select', 0, 0, False], ['status', 0, 0],
                                                 ['copy', 0, True, True, '1', 0, 0], ['status', 0, 0], ['append', 0, 0, [], 3, 0, 0]]),
]


async def lock_contention(part, layout, r):
    """maildir: the UID list's lock file is held by somebody else (another process) for a moment while several connections are given APPEND/COPY: when it is let go,
    every message still gets a UID of its own and is found under it"""
    import os
    from pymap.imap import IMAPServer
    from pymap.backend.maildir.uidlist import UidList
    from .common import wire, backends
    base = backends.scratch_dir('pymap-verif-c04-')
    try:
        config, login = await backends.make_maildir(base, layout=layout, users=[('u', 'p', ())], bad_command_limit=None)
        srv = IMAPServer(login, config)
        nconn = r.choice([2, 2, 3])
        conns = []
        for _ in range(nconn):
            c = wire.Client(srv)
            await c.start()
            await c.send(b'a LOGIN u p\r\n')
            conns.append(c)
        serial = 0
        given = {}       # mark -> uid
        log = []
        case = dict(scenario='lock-contention', backend='maildir', layout=layout, seed=None, log=log)

        def msg():
            nonlocal serial
            serial += 1
            return b'mark-%04d' % serial, b'Subject: mark-%04d\r\n\r\nx\r\n' % serial
        for c in conns:       # ordinary use first
            mark, m_ = msg()
            raw = await c.send(b'a APPEND INBOX {%d+}\r\n' % len(m_) + m_ + b'\r\n')
            mt = re.search(rb'APPENDUID (\d+) (\d+)', raw)
            if mt:
                given[mark] = int(mt.group(2))
        lock_path = UidList.get_lock(os.path.join(base, 'u'))
        for round_ in range(r.randint(2, 4)):
            if r.random() < 0.6:
                # a delivery by somebody else: a file in new/ that has no UID yet
                import mailbox as stdlib_mailbox
                mark, m_ = msg()
                stdlib_mailbox.Maildir(os.path.join(base, 'u'), create=False).add(stdlib_mailbox.MaildirMessage(m_.replace(b'\r\n', b'\n')))
                log.append(f'delivery {mark.decode()}')
            try:
                with open(lock_path, 'x'):
                    pass
            except FileExistsError:
                part.stat('lock-contention:lock-busy')
                continue
            hold = r.choice([0.01, 0.03, 0.06])
            asyncio.get_running_loop().call_later(hold, lambda: os.path.exists(lock_path) and os.unlink(lock_path))
            sent = []
            for c in r.sample(conns, r.randint(2, nconn)):
                mark, m_ = msg()
                # the tag is the mark: an answer that comes late (a loaded machine) is still matched with its own command
                c.feed(mark + b' APPEND INBOX {%d+}\r\n' % len(m_) + m_ + b'\r\n')
                sent.append((c, mark))
                log.append(f'append {mark.decode()} while the lock is held ({hold}s)')
            await asyncio.sleep(hold + 0.02)
            part.stat('lock-contention:round')
            for c, mark in sent:
                raw = await c.settle(wall=8.0)
                for mk, u in re.findall(rb'(mark-\d+) OK \[APPENDUID \d+ (\d+)\]', raw):
                    given[mk] = int(u)
                if mark in given:
                    pass
                elif mark + b' NO' in raw or mark + b' BAD' in raw:
                    part.stat('lock-contention:refused')
                else:
                    part.stat('lock-contention:no-answer')
        part.case(key=f'lock-contention:{layout}:{nconn}', nontrivial=True, sample=dict(case, log=log[:8]))
        by_uid = {}
        for mark, uid in given.items():
            by_uid.setdefault(uid, []).append(mark.decode())
        twice = {u: ms for u, ms in by_uid.items() if len(ms) > 1}
        if twice:
            part.violation('monitor', f'maildir: APPENDUID reported the same UID for different messages while the UID list\'s lock was contended: {twice}', case, signature='uid-reused')
            return
        fresh = wire.Client(srv)
        await fresh.start()
        await fresh.send(b'a LOGIN u p\r\n')
        await fresh.send(b'a EXAMINE INBOX\r\n')
        raw = await fresh.send(b'a UID FETCH 1:* (UID BODY.PEEK[HEADER.FIELDS (SUBJECT)])\r\n')
        found = {int(u): mk for u, mk in re.findall(rb'UID (\d+) BODY\[HEADER\.FIELDS \(SUBJECT\)\] \{\d+\}\r\nSubject: (mark-\d+)', raw)}
        for mark, uid in given.items():
            if found.get(uid) != mark:
                part.violation('monitor', f'maildir: {mark.decode()} was reported as UID {uid}, but UID {uid} is {found.get(uid)!r} after the UID list\'s lock was contended '
                               f'(UIDs now: {sorted(found.items())})', case, signature='uid-names-another')
                return
        await fresh.eof()
        for c in conns:
            await c.eof()
    finally:
        backends.rmtree(base)


def run(ctx):
    ctx.rep.rule = RULE
    ctx.rep.assumptions = ['process restart / crash points of the maildir UID list are C15\'s subject (theorem C15_recover is shared)',
                           'delivery other than APPEND/COPY/MOVE (foreign writers into maildir new/) is exercised by C15']
    nw = ctx.workers
    ncases = ctx.budget(16, 300)
    jobs = [(ctx.seed * 1000 + 400 + k, ncases, ctx.budget(14, 36), CORPUS if k == 0 else []) for k in range(nw)]
    ctx.pmap(worker, jobs)


def replay(case):
    part = Part()
    case = case.get('case', case)
    if case.get('scenario') == 'rename':
        asyncio.run(rename_history(part, case['backend'], random.Random(case.get('seed', 1))))
    elif case.get('scenario') == 'lock-contention':
        for k in range(30):       # the recorded seed first, then a sweep of schedules of the same family
            asyncio.run(lock_contention(part, case.get('layout', '++'), random.Random((case.get('seed') or 0) + 29 + k)))
            if part.result()['violations']:
                break
    elif case.get('scenario') == 'delivery':
        asyncio.run(delivery_history(part, case['backend'], random.Random(case.get('seed', 1))))
    else:
        dumps = []
        backend = case.get('backend', 'dict')
        ext, outs, final = asyncio.run(l3.run_real(case['nsess'], case['program'], backend=backend, dump_each=dumps, dumps=(backend == 'dict')))
        for op, raw in zip(ext, outs):
            print(op, '->', raw[-160:])
        canon, errors, nt, shadows = l3.analyse(case['nsess'], ext, outs)
        uid_monitor(backend, dumps)(part, dict(backend=backend, nsess=case['nsess'], program=ext), canon, final, shadows)
    res = part.result()
    for v in res['violations']:
        print(f"[{v['kind']}] {v['what']}")
    print('reproduced' if res['violations'] else 'not reproduced')
    return 1 if res['violations'] else 0
