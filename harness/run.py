"""Entry point:  run.py Cxx [--tier quick|thorough] [--replay FILE]

1. lake build (proof obligations are re-checked by the kernel whenever a source changed)
2. hygiene + `#print axioms` audit of this property's theorems
3. the property's harness module: correspondence (model vs /repo's current code) + monitors
4. evidence, KNOWN-FINDING / VIOLATION lines, exit code
"""
from __future__ import annotations
import argparse
import importlib
import json
import os
import sys
import traceback

HERE = os.path.dirname(os.path.abspath(__file__))
VERIF = os.path.dirname(HERE)
sys.path.insert(0, VERIF)
REPO = os.environ.get('PYMAP_REPO', '/repo')
sys.path.insert(0, REPO)
os.environ.setdefault('PYMAP_VERIF', '1')          # guard of the (currently empty) set of source hooks

from harness.common import lean, report          # noqa: E402
from harness.theorems import theorems            # noqa: E402


class Ctx:
    def __init__(self, prop, tier, seed, rep):
        self.prop = prop
        self.tier = tier
        self.seed = seed
        self.rep = rep
        self.quick = tier == 'quick'
        self.workers = int(os.environ.get('VERIF_WORKERS', '16'))

    def budget(self, quick, thorough):
        return quick if self.quick else thorough

    def pmap(self, fn, jobs):
        """run fn(job) for each job in a process pool; merges the returned partial results"""
        import multiprocessing as mp
        jobs = list(jobs)
        if not jobs:
            return []
        if self.workers <= 1 or len(jobs) == 1:
            res = [fn(j) for j in jobs]
        else:
            with mp.get_context('fork').Pool(min(self.workers, len(jobs))) as pool:
                res = pool.map(fn, jobs, chunksize=1)
        for r in res:
            if isinstance(r, dict):
                self.rep.merge(r)
        return res


def proof_leg(prop, rep, tier):
    ok, out = lean.build()
    ths = theorems(prop)
    if not ok:
        for t in ths:
            rep.obligations[t] = dict(ok=False, axioms=None)
        rep.violation('proof', 'lake build failed: ' + out[-1500:], dict(theorems=ths, build_output=out[-4000:]),
                      signature='build-failed')
        return False
    hits = lean.hygiene()
    if hits:
        rep.violation('proof', 'banned construct in lean sources: ' + '; '.join(hits[:5]), dict(hits=hits),
                      signature='hygiene')
    ax = lean.audit(ths)
    for t, a in ax.items():
        good = a != ['<missing>'] and set(a) <= lean.ALLOWED_AXIOMS
        rep.obligations[t] = dict(ok=good, axioms=a)
        if not good:
            rep.violation('proof', f'theorem {t}: axioms {a}', dict(theorem=t, axioms=a), signature='axioms:' + t)
    if tier == 'thorough' and os.environ.get('VERIF_SKIP_LEANCHECKER') != '1':
        ok2, out2 = lean.leanchecker()
        rep.extra['leanchecker'] = 'ok' if ok2 else out2
        if not ok2:
            rep.violation('proof', 'leanchecker rejected the compiled modules: ' + out2[-500:], dict(output=out2),
                          signature='leanchecker')
    return True


def main():
    ap = argparse.ArgumentParser()
    ap.add_argument('prop')
    ap.add_argument('--tier', default=os.environ.get('VERIF_TIER', 'quick'), choices=['quick', 'thorough'])
    ap.add_argument('--replay')
    a = ap.parse_args()
    seed = int(os.environ.get('VERIF_SEED', '1'))
    prop = a.prop.upper()
    mod = importlib.import_module('harness.' + prop.lower())
    if a.replay:
        data = json.load(open(a.replay))
        return mod.replay(data.get('replay', data))
    rep = report.Report(prop, a.tier, seed)
    ctx = Ctx(prop, a.tier, seed, rep)
    try:
        built = proof_leg(prop, rep, a.tier)
        if not os.path.exists(os.path.join(VERIF, 'lean', '.lake', 'build', 'bin', 'driver')):
            print('model driver is not built; cannot run the correspondence', file=sys.stderr)
            rep.finish()
            return 1 if not built else 2
        mod.run(ctx)
    except Exception:
        traceback.print_exc()
        print(f'harness error in {prop}: cannot decide', file=sys.stderr)
        return 2
    return rep.finish()


if __name__ == '__main__':
    sys.exit(main())
