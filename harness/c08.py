"""C08 — mailbox names cannot reach outside the user's own mail store.

Tie: the Lean `Layout` model (`splitOn`, `validParts`, `validPartsDefault`, `defaultPath`, `fsPath`, `norm` — about which
C08_confined_default / C08_confined_fs prove that every accepted name resolves strictly below the user directory, and
C08_escape_as_found records the escapes of the code as found) is asked, for every hostile name, whether the name is accepted
and where it lands; the real maildir backend must refuse exactly the names the model refuses (tagged NO, nothing touched
outside) and create the mailbox directory exactly where the model says.
Monitor: while user alice is served, every `os` / `os.path` / `shutil` / `open` / `mailbox` entry point that takes a path is
wrapped and its (realpath-normalised) arguments recorded: every path must be the user's directory or below it, and for every
mutating call strictly below it; bob's tree and the password/config files next to the user directories are hashed before
and after.  Both layouts, every command that takes a mailbox argument (incl. reference/pattern of LIST/LSUB and the
destination of COPY/MOVE/RENAME).  Dict backend: alice's hostile-name commands never change what bob observes.
"""
from __future__ import annotations
import asyncio
import builtins
import hashlib
import os
import random
import shutil

from .common import wire, backends, imapresp, mutf7, gen
from .common.model import Model, nats
from .common.report import Part, guarded

RULE = ('every command taking a mailbox argument (CREATE DELETE RENAME(both) SELECT EXAMINE STATUS APPEND SUBSCRIBE UNSUBSCRIBE LIST/LSUB(reference and pattern) '
        'COPY MOVE) x hostile names (empty, ., .., leading/trailing/doubled delimiters, ../ chains, NUL, OS separators, long, non-ASCII, INBOX variants) x layouts ++ and fs, '
        'two users; all path arguments of os/shutil/open recorded; non-trivial = the name contains a dot component, an empty component, NUL or a separator other than the '
        'delimiter; distinct by (layout, command, name)')

NAMES = gen.HOSTILE_NAMES + ['..', '../bob', '../bob/x', '../../etc', 'a/../../bob', 'a/../..', './x', 'x/.', 'x/..', '/etc/passwd', '//', 'a/b/../../../bob',
                             '..\\bob', '.bob', '..bob', 'a/./../b', '\x00', 'a\x00/../bob', '../pymap-etc-passwd', 'a/' * 30 + 'b', '.' * 3, 'INBOX/..', 'INBOX/../../bob',
                             'inbox/../x', 'INBOX/', 'inbox/', 'INBOX//', 'INBOX/.', '/INBOX', 'INBOX\x00', 'a/INBOX/', '~', '~root', '$HOME', 'a\\..\\b', '..%2f', '%2e%2e/x',
                             # characters that some Unicode normalisation (NFKC, NFKD) or case folding turns into a dot or a separator *after* the name was validated
                             '\u2025/bob', '\u2025', '\u2024', '\u2024\u2024/bob', '\uff0e\uff0e/bob', '\uff0e\uff0e\uff0fbob', 'x\uff0f\u2025\uff0f\u2025\uff0fbob', '\u2025/bob/x', '\uff0e', 'a/\u2025/\u2025/bob',
                             '\u2215\u2215etc', '\u2044bob', '\ufe52\ufe52/bob', '\u3002\u3002/bob', 'INBOX\uff0f\u2025', '\u2025\u2215bob']
MUTATING = {'rename', 'replace', 'remove', 'unlink', 'rmdir', 'mkdir', 'makedirs', 'removedirs', 'rmtree', 'link', 'symlink', 'utime', 'chmod', 'truncate', 'open-w', 'move', 'copy'}


class Recorder:
    """wraps path-taking entry points while active"""
    OS_FUNCS = ['rename', 'replace', 'remove', 'unlink', 'rmdir', 'mkdir', 'makedirs', 'removedirs', 'listdir', 'scandir', 'stat', 'lstat', 'utime', 'link', 'symlink',
                'chmod', 'open', 'walk', 'access', 'truncate']
    PATH_FUNCS = ['isdir', 'isfile', 'exists', 'getmtime', 'getsize', 'lexists']
    SHUTIL_FUNCS = ['rmtree', 'move', 'copy', 'copyfile', 'copytree']

    def __init__(self):
        self.log = []
        self.active = False
        self.saved = []

    def _wrap(self, mod, name, label, nargs=1):
        orig = getattr(mod, name)
        rec = self

        def wrapper(*a, **kw):
            if rec.active:
                for x in a[:nargs]:
                    if isinstance(x, (str, bytes, os.PathLike)):
                        mode = label
                        if label == 'open':
                            flags = a[1] if len(a) > 1 else kw.get('mode', kw.get('flags', 'r'))
                            if isinstance(flags, str):
                                mode = 'open-w' if any(c in flags for c in 'wxa+') else 'open-r'
                            else:
                                mode = 'open-w' if flags & (os.O_WRONLY | os.O_RDWR | os.O_CREAT | os.O_TRUNC) else 'open-r'
                        rec.log.append((mode, os.fsdecode(x)))
            return orig(*a, **kw)
        self.saved.append((mod, name, orig))
        setattr(mod, name, wrapper)

    def install(self):
        for f in self.OS_FUNCS:
            if hasattr(os, f):
                self._wrap(os, f, 'open' if f == 'open' else f, 2 if f in ('rename', 'replace', 'link', 'symlink') else 1)
        for f in self.PATH_FUNCS:
            self._wrap(os.path, f, f)
        for f in self.SHUTIL_FUNCS:
            self._wrap(shutil, f, f, 2 if f in ('move', 'copy', 'copyfile', 'copytree') else 1)
        self._wrap(builtins, 'open', 'open')

    def uninstall(self):
        for mod, name, orig in reversed(self.saved):
            setattr(mod, name, orig)
        self.saved = []


def tree_hash(path):
    h = hashlib.sha256()
    for root, dirs, files in os.walk(path):
        dirs.sort()
        h.update(root.encode('utf-8', 'surrogateescape'))
        for d in dirs:
            h.update(b'D' + d.encode('utf-8', 'surrogateescape'))
        for f in sorted(files):
            fp = os.path.join(root, f)
            h.update(b'F' + f.encode('utf-8', 'surrogateescape'))
            try:
                with open(fp, 'rb') as fh:
                    h.update(fh.read())
            except OSError:
                h.update(b'?')
    return h.hexdigest()


def base_files_hash(base):
    h = hashlib.sha256()
    for f in sorted(os.listdir(base)):
        fp = os.path.join(base, f)
        if os.path.isfile(fp):
            h.update(f.encode())
            h.update(open(fp, 'rb').read())
    return h.hexdigest()


def commands_for(name, r):
    w = mutf7.wire_name(name)
    msg = b'A: b\r\n\r\nx\r\n'
    return [
        ('RENAME-to', b'RENAME mine ' + w),
        ('RENAME-back', b'RENAME ' + w + b' mine'),
        ('CREATE', b'CREATE ' + w),
        ('SELECT', b'SELECT ' + w),
        ('EXAMINE', b'EXAMINE ' + w),
        ('STATUS', b'STATUS ' + w + b' (MESSAGES)'),
        ('APPEND', b'APPEND ' + w + b' {%d+}\r\n' % len(msg) + msg),
        ('SUBSCRIBE', b'SUBSCRIBE ' + w),
        ('LSUB', b'LSUB "" *'),
        ('UNSUBSCRIBE', b'UNSUBSCRIBE ' + w),
        ('LIST-ref', b'LIST ' + w + b' *'),
        ('LIST-pat', b'LIST "" ' + w),
        ('LSUB-ref', b'LSUB ' + w + b' %'),
        ('SELECT-INBOX', b'SELECT INBOX'),
        ('COPY', b'COPY 1 ' + w),
        ('MOVE', b'MOVE 1:* ' + w),
        ('APPEND-INBOX', b'APPEND INBOX {%d+}\r\n' % len(msg) + msg),
        ('RENAME-from', b'RENAME ' + w + b' other'),
        ('DELETE-other', b'DELETE other'),
        ('DELETE', b'DELETE ' + w),
    ]


def nontrivial(name):
    parts = name.split('/')
    return any(p in ('', '.', '..') for p in parts) or '\x00' in name or '\\' in name


async def maildir_case(part, m, layout, names, rec):
    from pymap.imap import IMAPServer
    base = backends.scratch_dir()
    lay = '++' if layout == 'default' else 'fs'
    try:
        cfg, login = await backends.make_maildir(base, layout=lay, bad_command_limit=None)
        srv = IMAPServer(login, cfg)
        # bob has mail and a mailbox of his own
        b = wire.Client(srv, 3)
        await b.start()
        await b.send(b'b LOGIN bob pwbob\r\n')
        await b.send(b'b CREATE bobs\r\n')
        msg = b'Subject: bob\r\n\r\nsecret\r\n'
        await b.send(b'b APPEND bobs {%d+}\r\n' % len(msg) + msg + b'\r\n')
        await b.send(b'b LOGOUT\r\n')
        await b.finish()
        userdir = os.path.realpath(os.path.join(base, 'alice'))
        bobdir = os.path.realpath(os.path.join(base, 'bob'))

        async def connect():
            c = wire.Client(srv)
            await c.start()
            await c.send(b'a LOGIN alice pwalice\r\n')
            return c
        c = await connect()
        await c.send(b'a APPEND INBOX {%d+}\r\n' % len(msg) + msg + b'\r\n')
        await c.send(b'a CREATE mine\r\n')
        await c.send(b'a SELECT INBOX\r\n')
        for name in names:
            mod = m.ask(f'layout {layout} {nats([ord(ch) for ch in name])}')
            for label, line in commands_for(name, None):
                if c.task.done():
                    await c.finish()
                    c = await connect()
                    await c.send(b'a SELECT INBOX\r\n')
                case = dict(layout=layout, command=label, name=name)
                bob_before = tree_hash(bobdir)
                etc_before = base_files_hash(base)
                user_exists_before = os.path.isdir(userdir)
                rec.log = []
                rec.active = True
                try:
                    raw = await c.send(b't ' + line + b'\r\n')
                finally:
                    rec.active = False
                log = list(rec.log)
                try:
                    tg = imapresp.tagged(imapresp.parse(raw), b't')
                except imapresp.Malformed:
                    tg = None
                status = tg[1].decode() if tg else ('CLOSED' if c.task.done() else '?')
                part.case(key=f'{layout}:{label}:{name!r}', nontrivial=nontrivial(name), sample=dict(layout=layout, command=label, name=name, status=status, paths=len(log)))
                part.stat(f'{label}:{status}')
                for mode, pth in log:
                    rp = os.path.realpath(pth if os.path.isabs(pth) else os.path.join(os.getcwd(), pth))
                    inside = rp == userdir or rp.startswith(userdir + os.sep)
                    # temp files of the atomic writers live next to their targets (same directory) after the D22 repair
                    if not inside:
                        if rp.startswith(os.path.realpath(base) + os.sep + 'pymap-etc') and mode in ('open-r', 'stat', 'exists', 'isfile', 'getmtime'):
                            continue     # reading the password files to authenticate is not a mailbox access
                        part.violation('monitor', f'{layout}: {label} with name {name!r} touched {rp!r} ({mode}), outside {userdir!r}', case, signature='path-outside')
                        break
                    if mode in MUTATING and rp == userdir and label.split('-')[0] in ('DELETE', 'RENAME'):
                        part.violation('monitor', f'{layout}: {label} with name {name!r} applied {mode} to the user directory itself', case, signature='path-userdir')
                        break
                if tree_hash(bobdir) != bob_before:
                    part.violation('monitor', f"{layout}: {label} with name {name!r} changed bob's store", case, signature='other-user-changed')
                if base_files_hash(base) != etc_before:
                    part.violation('monitor', f'{layout}: {label} with name {name!r} changed a file next to the user directories', case, signature='etc-changed')
                if user_exists_before and not os.path.isdir(os.path.join(userdir, 'cur')):
                    part.violation('monitor', f"{layout}: {label} with name {name!r} removed alice's own INBOX directory", case, signature='inbox-removed')
                    return
                # correspondence with the Layout model
                if label == 'CREATE' and mod != 'INBOX':
                    if mod in ('REJECT', 'ESCAPE', 'SELF'):
                        if status == 'OK':
                            part.violation('correspondence', f'{layout}: CREATE {name!r} answered OK; the Layout model refuses the name ({mod})', case, signature='layout-accepts')
                    else:
                        want = os.path.join(userdir, *[''.join(chr(int(x)) for x in comp.split(',')) for comp in mod.split('/')])
                        if status == 'OK' and not os.path.isdir(os.path.join(want, 'cur')):
                            part.violation('correspondence', f'{layout}: CREATE {name!r} answered OK but there is no maildir at {want!r}, where the Layout model puts it', case,
                                           signature='layout-path')
                        if status not in ('OK', 'NO'):
                            part.violation('monitor', f'{layout}: CREATE {name!r} answered {status}', case, signature='create-answer')
        await c.eof()
    finally:
        backends.rmtree(base)


async def dict_case(part, names):
    from pymap.imap import IMAPServer
    be, config = await backends.make_dict(users=[('alice', 'pwalice', ()), ('bob', 'pwbob', ())], bad_command_limit=None)
    srv = IMAPServer(be.login, config)
    b = wire.Client(srv, 3)
    await b.start()
    await b.send(b'b LOGIN bob pwbob\r\n')
    await b.send(b'b CREATE bobs\r\n')
    msg = b'Subject: bob\r\n\r\nsecret\r\n'
    await b.send(b'b APPEND bobs {%d+}\r\n' % len(msg) + msg + b'\r\n')
    # bob owns mailboxes under the very names alice is going to use (where they can be created), and is subscribed to every other one:
    # a name must not reach another user's mailbox of the same name either
    names = ['bobs', 'INBOX'] + list(names)
    for k, name in enumerate(names[2:]):
        await b.send(b'b CREATE ' + mutf7.wire_name(name) + b'\r\n')
        if k % 2 == 0:
            await b.send(b'b SUBSCRIBE ' + mutf7.wire_name(name) + b'\r\n')

    async def bob_view():
        out = [await b.send(b'b LIST "" *\r\n'), await b.send(b'b LSUB "" *\r\n')]
        for n in (b'INBOX', b'bobs'):
            out.append(await b.send(b'b STATUS %s (MESSAGES UIDNEXT UNSEEN)\r\n' % n))
        return tuple(out)
    c = wire.Client(srv)
    await c.start()
    await c.send(b'a LOGIN alice pwalice\r\n')
    await c.send(b'a APPEND INBOX {%d+}\r\n' % len(msg) + msg + b'\r\n')
    await c.send(b'a CREATE mine\r\n')
    await c.send(b'a SELECT INBOX\r\n')
    before = await bob_view()
    for name in names:
        for label, line in commands_for(name, None):
            if c.task.done():
                await c.finish()
                c = wire.Client(srv)
                await c.start()
                await c.send(b'a LOGIN alice pwalice\r\n')
                await c.send(b'a SELECT INBOX\r\n')
            await c.send(b't ' + line + b'\r\n')
            part.case(key=f'dict:{label}:{name!r}', nontrivial=nontrivial(name))
        after = await bob_view()
        if after != before:
            part.violation('monitor', f"dict: alice's commands with name {name!r} changed what bob observes: {before} -> {after}", dict(layout='dict', name=name),
                           signature='dict-other-user')
            before = after
    await c.eof()
    await b.eof()


def worker(job):
    seed, names, layouts = job
    part = Part()
    m = Model()
    rec = Recorder()
    rec.install()
    try:
        for layout in layouts:
            with guarded(part, f'C08 {layout}', dict(layout=layout, names=names[:5])):
                if layout == 'dict':
                    asyncio.run(dict_case(part, names))
                else:
                    asyncio.run(maildir_case(part, m, layout, names, rec))
    finally:
        rec.uninstall()
        m.close()
    return part.result()


def gen_names(r, n):
    comps = ['', '.', '..', 'a', 'bob', '..', 'x\x00', 'INBOX', 'pymap-etc-passwd', '.hidden', 'é', '...', 'a.b', '~', '*', '%', '\u2025', '\uff0e\uff0e', '\u2024', 'x\uff0fbob']
    out = []
    for _ in range(n):
        out.append('/'.join(r.choice(comps) for _ in range(r.randint(1, 5))))
    return out


async def nested_homes(part, layout):
    """accounts whose home directories are nested by domain and end in the same component (`a.example/alice`, `b.example/alice`): each one's store is its own home
    directory - what one does with ordinary mailbox names stays below its home and is invisible to the other"""
    import os
    from pymap.imap import IMAPServer
    from .common import wire
    base = backends.scratch_dir('pymap-verif-c08-')
    users = [('alice@a.example', 'pw1', (), 'a.example/alice'), ('alice@b.example', 'pw2', (), 'b.example/alice')]
    case = dict(scenario='nested-homes', layout=layout)
    try:
        for d in ('a.example', 'b.example'):      # the domain directories are the administrator's; pymap creates the leaf only
            os.mkdir(os.path.join(base, d))
        config, login = await backends.make_maildir(base, layout=layout, users=users, bad_command_limit=None)
        srv = IMAPServer(login, config)

        def snapshot():
            out = set()
            for root, dirs, files in os.walk(base):
                for n in dirs + files:
                    out.add(os.path.relpath(os.path.join(root, n), base))
            return out
        conns = []
        for u, pw, _, home in users:
            c = wire.Client(srv)
            await c.start()
            raw = await c.send(b'a LOGIN "%s" %s\r\n' % (u.encode(), pw.encode()))
            if b'a OK' not in raw:
                raise RuntimeError(f'nested-homes fixture: LOGIN failed: {raw!r}')
            conns.append(c)
        before = snapshot()
        a, b = conns
        for line in (b'CREATE Private', b'APPEND Private {9+}\r\nA: b\r\n\r\nx', b'APPEND INBOX {9+}\r\nA: b\r\n\r\ny', b'SUBSCRIBE Private', b'CREATE a/b', b'RENAME a/b c'):
            await a.send(b'a ' + line + b'\r\n')
        after = snapshot()
        part.case(key='nested-homes:' + layout, nontrivial=True, sample=case)
        part.stat('nested-homes')
        outside = sorted(p for p in after - before if not (p == 'a.example' or p.startswith('a.example/alice')))
        if outside:
            part.violation('monitor', f'{layout}: the account with home a.example/alice created {outside[:6]} - outside its own directory', dict(case, created=outside[:20]), signature='home-escape')
        seen = await b.send(b'b LIST "" *\r\n')
        st = await b.send(b'b STATUS Private (MESSAGES)\r\n')
        ib = await b.send(b'b STATUS INBOX (MESSAGES)\r\n')
        if b'Private' in seen or b'b OK' in st or b'MESSAGES 0' not in ib:
            part.violation('monitor', f'{layout}: the account with home b.example/alice sees the other account\'s mailboxes: LIST {seen[:120]!r}, STATUS Private {st[-60:]!r}, INBOX {ib[-60:]!r}',
                           case, signature='home-shared')
        await b.send(b'b DELETE Private\r\n')
        chk = await a.send(b'a STATUS Private (MESSAGES)\r\n')
        if b'MESSAGES 1' not in chk:
            part.violation('monitor', f'{layout}: DELETE Private by the account with home b.example/alice changed the other account\'s mailbox: {chk[-80:]!r}', case, signature='home-shared')
        for c in conns:
            await c.eof()
    finally:
        backends.rmtree(base)


def homes_worker(job):
    part = Part()
    for layout in ('++', 'fs'):
        with guarded(part, 'C08 nested homes', dict(scenario='nested-homes', layout=layout)):
            asyncio.run(nested_homes(part, layout))
    return part.result()


def run(ctx):
    ctx.rep.rule = RULE
    ctx.rep.assumptions = ['lexical path model: no symlinks planted inside the store, no mount points, case-sensitive filesystem',
                           'reading the password files in the base directory to authenticate is not a mailbox access']
    r = random.Random(ctx.seed)
    names = list(dict.fromkeys(NAMES + gen_names(r, ctx.budget(40, 600))))
    nw = ctx.workers
    jobs = []
    for k in range(nw):
        chunk = names[k::nw]
        jobs.append((ctx.seed + k, chunk, ['default', 'fs'] + (['dict'] if k % 4 == 0 else [])))
    ctx.pmap(worker, jobs)
    ctx.pmap(homes_worker, [0])


def replay(case):
    case = case.get('case', case)
    if case.get('scenario') == 'nested-homes':
        part = Part()
        asyncio.run(nested_homes(part, case.get('layout', '++')))
        res = part.result()
        for v in res['violations']:
            print(f"[{v['kind']}] {v['what']}")
        print('reproduced' if res['violations'] else 'not reproduced')
        return 1 if res['violations'] else 0
    part = Part()
    m = Model()
    rec = Recorder()
    rec.install()
    try:
        lay = case.get('layout', 'default')
        if lay == 'dict':
            asyncio.run(dict_case(part, [case['name']]))
        else:
            asyncio.run(maildir_case(part, m, lay, [case['name']], rec))
    finally:
        rec.uninstall()
        m.close()
    res = part.result()
    for v in res['violations']:
        print(f"[{v['kind']}] {v['what']}")
    print('reproduced' if res['violations'] else 'not reproduced')
    return 1 if res['violations'] else 0
