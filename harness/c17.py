"""C17 — \\Recent is announced to exactly one session and never stored.

Tie: command-level engine (real connections vs Lean `Server`; its `select`/`append`/`copyMove`/`pickDest` are the
executable form of `Recent.step` about which C17_at_most_one / C17_first_rw_gets_it / C17_not_stored_after are proved);
L1: the abstract `Recent` model is replayed on the same select/close/append histories and its `given` ghost compared.
Monitor (from the byte streams alone): every FETCH FLAGS that shows \\Recent is attributed to (mailbox, uid, connection,
selection epoch); each message may be so reported in at most one read-write selection and never in a read-only one;
a message that arrived while no read-write session had the mailbox selected must be reported \\Recent to the next
read-write session that selects it; RECENT counts (SELECT and untagged) must equal the number of messages the session
sees flagged \\Recent; a probe that only EXAMINEs must never see \\Recent on any message (= stored permanently).
"""
from __future__ import annotations
import asyncio
import random

from .common import l3
from .common.model import batch
from .common.report import Part, guarded

RULE = ('histories of APPEND/COPY/MOVE into mailboxes with 0-3 sessions selecting, examining, closing and reselecting in every order, APPEND/STORE flag lists that '
        'include \\Recent; every SELECT is followed by FETCH 1:* (UID FLAGS); non-trivial = at least two different selections of the same mailbox and a message '
        'that arrived while nobody had it selected read-write; distinct by program text')

PROFILE = dict(weights=dict(select=16, close=8, noop=8, check=1, append=22, store=8, fetch=4, expunge=4, uidexpunge=1, copy=8, move=4, search=0),
               examine=0.3, recent_in_flags=0.2, final_noops=False, pre_append=0)


def instrument(prog, nsess, r):
    """after every SELECT and before the end: FETCH 1:* (UID FLAGS) so that every position gets its uid and flags"""
    out = []
    for op in prog:
        out.append(op)
        if op[0] == 'select':
            out.append(['fetch', op[1], False, '1:*', ['UID', 'FLAGS']])
        elif op[0] in ('append', 'copy') and r.random() < 0.5:
            j = r.randrange(nsess)
            out.append(['noop', j])
            out.append(['fetch', j, False, '1:*', ['UID', 'FLAGS']])
    for i in range(nsess):
        out.append(['noop', i])
        out.append(['fetch', i, False, '1:*', ['UID', 'FLAGS']])
    return out


def recent_monitor(part, case, canon, final, shadows):
    prog = case['program']
    nsess = case['nsess']
    # 1. attribution: (box, uid) -> set of (conn, epoch, ro)
    for sh in shadows:
        sh.archive()
    told = {}
    for i, sh in enumerate(shadows):
        for h in getattr(sh, 'history', []):
            for uid, rec in h['seen']:
                if rec and uid is not None:
                    told.setdefault((h['box'], uid), set()).add((i, h['epoch'], h['ro']))
                if rec and uid is None:
                    part.stat('recent-unlabelled')
    multi = False
    for (box, uid), who in told.items():
        if any(ro for (_, _, ro) in who):
            part.violation('monitor', f'message uid {uid} of mailbox {box} was reported \\Recent inside a read-only selection {sorted(who)}', case,
                           signature='recent-to-readonly')
        if len(who) > 1:
            part.violation('monitor', f'message uid {uid} of mailbox {box} was reported \\Recent to more than one selection: {sorted(who)}', case,
                           signature='recent-twice')
    # 2. stored permanently?
    for b in range(3):
        for (u, fl, cid, day) in final[b][0]:
            if 9 in fl:
                part.violation('monitor', f'a session that only EXAMINEs sees \\Recent on uid {u} of mailbox {b}: it is stored as a permanent flag', case,
                               signature='recent-stored')
    # 3. counts + first-rw-gets-it, walking the program
    waiting = {0: set(), 1: set(), 2: set()}      # uids that arrived while no rw session had the box selected and no rw session selected it since
    exists_uids = {0: set(), 1: set(), 2: set()}
    arrived_unselected = False
    for j, (op, c) in enumerate(zip(prog, canon)):
        st = l3.sel_state(prog[:j], nsess)
        status, code, items = c
        if op[0] in ('append', 'copy') and status == 'OK':
            dest = op[2] if op[0] == 'append' else op[5]
            new = []
            if code.startswith('APPENDUID'):
                new = [int(x) for x in code.split()[1].split(',')]
            elif code.startswith('COPYUID'):
                new = [int(x) for x in code.split()[2].split(',')]
            rw_here = any(st[k] is not None and st[k][0] == dest and not st[k][1] for k in range(nsess))
            if not rw_here and dest < 3:
                waiting[dest].update(new)
                if new:
                    arrived_unselected = True
        if op[0] == 'select' and status == 'OK' and not op[3]:
            # the following op is the instrumented full fetch
            if j + 1 < len(prog) and prog[j + 1][0] == 'fetch' and prog[j + 1][1] == op[1]:
                fitems = canon[j + 1][2]
                seen_recent = {it[4] for it in fitems if it[0] == 'FETCH' and it[3]}
                present = {it[4] for it in fitems if it[0] == 'FETCH'}
                rc = [it[1] for it in items if it[0] == 'RECENT']
                if rc and rc[-1] != len(seen_recent):
                    part.violation('monitor', f'SELECT announced {rc[-1]} RECENT but the session sees {len(seen_recent)} messages flagged \\Recent ({sorted(seen_recent)}) '
                                   f'(command #{j})', dict(case, at=j), signature='recent-count-select')
                lost = (waiting[op[2]] & present) - seen_recent
                if lost:
                    part.violation('monitor', f'uids {sorted(lost)} of mailbox {op[2]} arrived while no read-write session had it selected, but the first read-write '
                                   f'SELECT afterwards (command #{j}) does not report them \\Recent', dict(case, at=j), signature='recent-lost')
                waiting[op[2]] = set()
        if op[0] == 'fetch' and op[3] == '1:*' and 'FLAGS' in op[4] and status == 'OK' and st[op[1]] is not None and not st[op[1]][1]:
            # untagged RECENT bookkeeping: the last RECENT n this session received must equal what it now sees
            i = op[1]
            last = None
            for k in range(j, -1, -1):
                if prog[k][1] == i:
                    rcs = [it[1] for it in canon[k][2] if it[0] == 'RECENT']
                    if rcs:
                        last = rcs[-1]
                        break
                    if prog[k][0] == 'select':
                        break
            n_seen = len([it for it in items if it[0] == 'FETCH' and it[3]])
            if last is not None and last != n_seen:
                part.violation('monitor', f'session {i} was last told {last} RECENT but sees {n_seen} messages flagged \\Recent (command #{j})', dict(case, at=j),
                               signature='recent-count-untagged')
    selections = sum(len(getattr(sh, 'history', [])) for sh in shadows)
    return arrived_unselected and selections >= 2


async def gone_connection(part, r):
    """a connection that has gone away no longer counts as a selection of the mailbox - however it went (LOGOUT, end of stream, a task cancelled) and whatever
    it did last (a refused, an unparseable command).  Run with the cyclic garbage collector switched off: a selection that is only *collected* away is still
    counted until the collector happens to run, and a delivery in between is credited to nobody"""
    import gc
    from pymap.imap import IMAPServer
    from .common import wire, backends
    be, config = await backends.make_dict(users=[('u', 'p', ())], bad_command_limit=None)
    srv = IMAPServer(be.login, config)
    last = r.choice([b'a3 FETCH 1 (BODY[', b'a3 NOOP', b'a3 XYZZY', b'a3 FETCH 1 (FLAGS', b'a3 SELECT nosuch', b'a3 STORE 1 +FLAGS (\\Seen', b'a3 FETCH 9 (FLAGS)', b'a3 SEARCH (', b'a3 IDLE',
                     b'a3 EXAMINE INBOX', b'a3 COPY 1 nosuch', b'a3 APPEND INBOX {3}'])
    how = r.choice(['eof', 'eof', 'logout', 'cancel'])
    if how == 'cancel' and last.endswith(b'IDLE'):
        # a connection *task* cancelled while idling is a server shutting down, not a client going away: the idler's helper task outlives it for a few turns
        how = 'eof'
    case = dict(scenario='gone-connection', last=last.decode('latin1'), how=how)
    gc.collect()
    gc.disable()
    try:
        a = wire.Client(srv)
        await a.start()
        await a.send(b'a LOGIN u p\r\n')
        await a.send(b'a SELECT INBOX\r\n')
        await a.send(last + b'\r\n')
        if how == 'logout' and not a.task.done():
            if last.endswith(b'IDLE'):
                await a.send(b'DONE\r\n')
            await a.send(b'a LOGOUT\r\n')
        if how == 'cancel':
            a.task.cancel()
        try:
            await a.eof() if how != 'cancel' else await a.finish()
        except BaseException:      # noqa
            pass
        del a
        b = wire.Client(srv)
        await b.start()
        await b.send(b'b LOGIN u p\r\n')
        await b.send(b'b APPEND INBOX {9+}\r\nA: b\r\n\r\nx\r\n')
        c = wire.Client(srv)
        await c.start()
        await c.send(b'c LOGIN u p\r\n')
        out = await c.send(b'c SELECT INBOX\r\n')
        part.case(key=f'gone:{last!r}:{how}', nontrivial=True, sample=case)
        part.stat('gone-connection')
        if b'* 1 RECENT' not in out:
            part.violation('monitor', f'a connection selected INBOX, sent {last!r} and went away ({how}); a message delivered afterwards is not \\Recent for the next session to select the mailbox: '
                           f'{[l for l in out.split(b"\r\n") if b"RECENT" in l or b"EXISTS" in l]} - it was credited to the connection that is gone', case, signature='recent-to-gone-connection')
        await b.eof()
        await c.eof()
    finally:
        gc.enable()


def worker(job):
    seed, ncases, maxlen, corpus = job
    r = random.Random(seed)
    part = Part()
    cases = [(c['nsess'], c['program']) for c in corpus]
    for _ in range(ncases):
        nsess = r.choice([1, 2, 2, 3, 3])
        prof = dict(PROFILE, main_box=r.choice([0, 0, 1]))
        if r.random() < 0.3:
            # unclaimed messages travelling: sources that were only ever EXAMINEd, destinations somebody has selected
            prof = dict(prof, examine=0.6, weights=dict(PROFILE['weights'], copy=20, move=8, select=22, append=16))
        carry = nsess >= 2 and r.random() < 0.3
        if carry:
            prof = dict(prof, pre_append=0)
        prog = l3.gen_program(r, nsess, r.randint(4, maxlen), prof)
        if carry:
            # deliveries while nobody has the mailbox selected, then one session only EXAMINEs it while another has a
            # different mailbox selected read-write; the random tail copies and re-selects
            x = prof['main_box']
            y = r.choice([b for b in (0, 1, 2) if b != x])
            head = [['append', r.randrange(nsess), x, [], 90 + k, 0, 0] for k in range(r.randint(1, 3))]
            head += [['select', 0, x, True], ['select', 1, y, False]]
            if r.random() < 0.6:
                head.append(['copy', 0, False, r.random() < 0.5, '1:*', y, 1])
            prog = head + prog[nsess:]
        else:
            # some sessions start unselected so that messages arrive while nobody has the mailbox selected
            prog = [op for k, op in enumerate(prog) if not (k < nsess and op[0] == 'select' and r.random() < 0.5)]
        cases.append((nsess, instrument(prog, nsess, r)))
    done = []
    for nsess, prog in cases:
        with guarded(part, 'C17 run', dict(nsess=nsess, program=prog)):
            ext, outs, final = asyncio.run(l3.run_real(nsess, prog))
            done.append((nsess, ext, outs, final))
    l3.judge(part, done, 'C17', extra_monitor=recent_monitor)
    # maildir: \Recent is "the file is still in new/"; the monitors alone (no model: sessions do not share their selections there)
    mcases = []
    for k in range(max(2, ncases // 6)):
        nsess = r.choice([2, 3, 3])
        prof = dict(PROFILE, main_box=0, examine=0.25, weights=dict(PROFILE['weights'], copy=18, move=6, select=20, close=10, append=18))
        prog = l3.gen_program(r, nsess, r.randint(6, maxlen), prof, uid_base=0)
        # some sessions start unselected: deliveries by a connection that has nothing selected stay unclaimed
        prog = [op for j, op in enumerate(prog) if not (j < nsess and op[0] == 'select' and r.random() < 0.5)]
        if r.random() < 0.5:
            # an unclaimed message copied by a session into the mailbox it has selected itself; later a fresh SELECT
            prog = [['select', 0, 0, False], ['append', 1, 0, [], 95, 0, 0], ['noop', 0], ['copy', 0, False, True, '1:*', 0, 0], ['close', 0], ['select', 2 % nsess, 0, False]] + prog
        mcases.append((nsess, instrument(prog, nsess, r)))
    for nsess, prog in mcases:
        backend = r.choice(['maildir', 'maildir-fs'])
        with guarded(part, 'C17 maildir run', dict(nsess=nsess, program=prog, backend=backend)):
            ext, outs, final = asyncio.run(l3.run_real(nsess, prog, backend=backend))
            case = dict(nsess=nsess, program=ext, backend=backend)
            canon, errors, nt, shadows = l3.analyse(nsess, ext, outs)
            for e in errors:
                part.violation('monitor', f'{backend}: {e}', case, signature='shadow')
            nt = recent_monitor(part, case, canon, final, shadows)
            part.case(key=backend + repr(ext), nontrivial=bool(nt), sample=dict(backend=backend, nsess=nsess, program=[' '.join(map(str, o)) for o in ext[:10]]))
            part.stat('backend:' + backend)
    for k in range(max(3, ncases // 5)):
        with guarded(part, 'C17 gone connection', dict(scenario='gone-connection', seed=seed, k=k)):
            asyncio.run(gone_connection(part, r))
    return part.result()


CORPUS = [
    # an unclaimed message (stored recent bit still set) is copied out of an EXAMINEd mailbox into one another session has selected:
    # that session is told, nobody else may be told afterwards (seeded C17-a)
    dict(nsess=3, program=[['append', 0, 0, [], 1, 0, 0], ['select', 1, 1, False], ['select', 0, 0, True], ['copy', 0, False, True, '101', 1, 1],
                           ['noop', 1], ['fetch', 1, False, '1:*', ['UID', 'FLAGS']], ['select', 2, 1, False], ['fetch', 2, False, '1:*', ['UID', 'FLAGS']],
                           ['close', 1], ['select', 1, 1, False], ['fetch', 1, False, '1:*', ['UID', 'FLAGS']]]),
    # D26: \Recent in APPEND's flag list
    dict(nsess=2, program=[['append', 0, 0, [0, 9], 1, 0, 0], ['select', 1, 0, True], ['fetch', 1, False, '1:*', ['UID', 'FLAGS']],
                           ['select', 0, 0, False], ['fetch', 0, False, '1:*', ['UID', 'FLAGS']], ['close', 0], ['select', 0, 0, False], ['fetch', 0, False, '1:*', ['UID', 'FLAGS']]]),
    # D18: an EXAMINE session appends to its own mailbox
    dict(nsess=2, program=[['select', 0, 0, True], ['fetch', 0, False, '1:*', ['UID', 'FLAGS']], ['append', 0, 0, [], 1, 0, 0], ['noop', 0],
                           ['fetch', 0, False, '1:*', ['UID', 'FLAGS']], ['select', 1, 0, False], ['fetch', 1, False, '1:*', ['UID', 'FLAGS']]]),
    # D36: FETCH, failed SELECT, then a delivery by someone else while nobody has the mailbox selected
    dict(nsess=2, program=[['append', 0, 0, [], 1, 0, 0], ['select', 0, 0, False], ['fetch', 0, False, '1:*', ['UID', 'FLAGS']], ['select', 0, 3, False],
                           ['append', 1, 0, [], 2, 0, 0], ['select', 1, 0, False], ['fetch', 1, False, '1:*', ['UID', 'FLAGS']]]),
    # STORE cannot set or clear \Recent; COPY does not carry it
    dict(nsess=2, program=[['select', 0, 0, False], ['fetch', 0, False, '1:*', ['UID', 'FLAGS']], ['append', 0, 0, [], 1, 0, 0], ['store', 0, False, '1', 2, [9], False],
                           ['store', 0, False, '1', 0, [1], False], ['copy', 0, False, False, '1', 1, 0], ['select', 1, 1, False], ['fetch', 1, False, '1:*', ['UID', 'FLAGS']],
                           ['store', 1, False, '1', 1, [9], False], ['close', 1], ['select', 1, 1, False], ['fetch', 1, False, '1:*', ['UID', 'FLAGS']],
                           ['noop', 0], ['fetch', 0, False, '1:*', ['UID', 'FLAGS']]]),
]


def run(ctx):
    ctx.rep.rule = RULE
    ctx.rep.assumptions = ['a selection period (SELECT ... CLOSE/next SELECT) is what the property calls a session',
                           'which of several read-write sessions any_selected picks is read from the real run (oracle), not predicted']
    nw = ctx.workers
    ncases = ctx.budget(40, 700)
    jobs = [(ctx.seed * 1000 + 700 + k, ncases, ctx.budget(14, 36), CORPUS if k == 0 else []) for k in range(nw)]
    ctx.pmap(worker, jobs)


def replay(case):
    part = Part()
    case = case.get('case', case)
    nsess, prog = case['nsess'], case['program']
    ext, outs, final = asyncio.run(l3.run_real(nsess, prog))
    for op, raw in zip(ext, outs):
        print(op, '->', raw[-160:])
    l3.judge(part, [(nsess, ext, outs, final)], 'C17', extra_monitor=recent_monitor)
    res = part.result()
    for v in res['violations']:
        print(f"[{v['kind']}] {v['what']}")
    print('reproduced' if res['violations'] else 'not reproduced')
    return 1 if res['violations'] else 0
