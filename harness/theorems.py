"""Which theorems are the proof obligations of which property (names as `#print axioms` takes them)."""
P = 'Pymap.'
THEOREMS = {
    'C01': ['C01.C01_coherent', 'C01.C01_fork_sync', 'C01.C01_hide_no_expunge', 'C01.C01_fetch_labels', 'C01.C01_system',
            'Sync.merge_same_message', 'Sync.seq_stable_without_expunge'],
    'C02': ['C02.C02_log_inv', 'C02.C02_log_complete', 'C02.C02_noop_converges'],
    'C03': ['C03.C03_raw', 'C03.C03_size', 'C03.C03_header_text', 'C03.C03_partial', 'C03.C03_copyuid_pairs', 'C03.C03_copyuid_mem', 'C03.C03_sortNat_sorted',
            'C03.sortNat_perm', 'C03.copyuid_set_order_as_seeded'],
    'C04': ['C04.C04_uid_monotone', 'C04.C04_uidnext', 'C04.C04_appenduid', 'C04.C04_copyuid_pairing', 'C15.C15_recover',
            'C15.C15_next_monotone', 'C15.C15_next_monotone_recover', 'C15.C15_append_uid_fresh',
            'C04.C04_uidlist_no_reuse', 'C04.C04_uidlist_exclusion', 'C04.uidlist_read_before_lock_as_seeded'],
    'C05': ['C05.C05_state_only', 'C05.C05_gate', 'C05.C05_refused_noop', 'C05.C05_select', 'C05.C05_close', 'C05.C05_logout'],
    'C06': ['C06.C06_answered', 'C06.C06_no_serverbug', 'C06.C06_tagged', 'C18.C06_modutf7_total', 'C18.C18_framing'],
    'C07': ['C07.C07_envelope', 'C07.C07_body', 'C07.C07_wellformed', 'C18.C07_quoted_escape', 'C18.C07_build_safe', 'C18.C18_encode_ascii'],
    'C08': ['C08.C08_confined_default', 'C08.C08_confined_fs', 'C08.C08_escape_as_found'],
    'C09': ['C05.C09_sound', 'C05.C09_no_reauth', 'C05.C09_logindisabled', 'C05.C09_failed_keeps', 'C05.C09_advertised_enforced', 'C05.C09_login_accepted_was_offered',
            'C05.C09_starttls_no_injection', 'C05.starttls_injection_as_found'],
    'C10': ['C10.C10_seqset', 'C10.C10_store_refines', 'C10.C10_expunge_refines', 'C10.C10_append_refines', 'C10.C10_permitted',
            'C10.C10_copy_refines', 'C10.C10_copy_uids', 'C10.C10_move_refines', 'C10.C10_server_copyMove', 'C10.C10_server_copy_spec', 'C10.C10_server_expunge'],
    'C11': ['C11.C11_star_all', 'C11.C11_pct', 'C11.C11_literal', 'C11.C11_list', 'C11.C11_inbox_guard',
            'C11.C11_errors_unchanged', 'C11.C11_conflicts', 'C11.C11_rename', 'C11.C11_rename_inbox', 'C11.C11_dp_matches'],
    'C12': ['C12.C12_frame', 'C12.C12_frame_program', 'C12.C12_answers', 'C05.C12_readonly_refuses'],
    'C13': ['C13.crit_iff', 'C13.C13_prefilter_sound', 'C13.C13_exact', 'C13.C13_uid_equiv', 'C13.C13_algebra', 'C13.C13_set_semantics'],
    'C14': ['C14.C14_conservation', 'C14.C14_move_loses_as_found', 'C14.C14_multiappend_atomic_full_false',
            'C14.C14_multiappend_atomic_partial', 'C14.C14_client_cancel', 'C14.C14_append_all', 'C14.client_cancel_as_seeded'],
    'C15': ['C15.C15_prefix', 'C15.C15_full', 'C15.C15_recover', 'C15.C15_crash_anywhere',
            'C15.C15_next_monotone', 'C15.C15_next_monotone_recover', 'C15.C15_append_uid_fresh'],
    'C16': ['C16.C16_no_lost_wakeup', 'C16.C16_progress', 'C16.C16_lost_wakeup_as_found', 'C16.C16_done', 'C16.C16_only_done'],
    'C17': ['C17.C17_at_most_one', 'C17.C17_first_rw_gets_it', 'C17.C17_not_stored_after', 'C18.C18_flag_case_insensitive'],
    'C18': ['C18.C18_roundtrip_quoted', 'C18.C18_roundtrip_number', 'C18.C18_modutf7', 'C18.C18_encode_ascii', 'C18.C18_framing', 'C18.C18_astring_spelling',
            'C18.C18_zone_roundtrip', 'C18.C18_zone_canonical', 'C18.C18_seqset_roundtrip',
            'C18.C18_flag_norm_idem', 'C18.C18_flag_case_insensitive', 'C18.C18_flag_keyword'],
    'C19': ['C19.C19_gate', 'C19.C19_wf', 'C19.C19_put_get', 'C19.C19_put_frame', 'C19.C19_list', 'C19.C19_delete_active',
            'C19.C19_delete', 'C19.C19_rename', 'C19.C19_isolation',
            'C19.C19_single_put_get', 'C19.C19_single_refused_unchanged', 'C19.C19_single_reads', 'C19.C19_single_no_ghosts', 'C19.single_delete_active_as_found'],
    'C20': ['C20.C20_exclusion', 'C20.C20_cancel_safe', 'C20.C20_file_exclusion', 'C20.C20_file_released',
            'C20.C20_no_deadlock', 'C20.C20_terminates',
            'C20.C20_thread_exclusion', 'C20.C20_thread_no_deadlock', 'C20.C20_thread_terminates'],
}


def theorems(prop):
    return [P + t for t in THEOREMS.get(prop, [])]
