"""C06 — every input is answered: no hang, no internal error, no silent drop.

Tie: the Lean `Loop.handle` outcome table of `_run_state` (C06_answered, C06_no_serverbug, C06_tagged) is replayed on sequences
of *constructed* outcome classes (a command that succeeds, a syntax error, a backend refusal, a broken SASL exchange, LOGOUT,
end of input, five BADs in a row): what the model says is written (tagged / BYE) and whether the loop continues is diffed with
the real connection; `ModUtf7.decodeName` terminates by structural recursion + fuel (C06_modutf7_total) and `modutf7_decode`
is run on the same inputs under a watchdog.
Monitor: command lines — grammar-derived with hostile arguments, mutated, and raw bytes, up to tens of KiB — are sent in the
not-authenticated, authenticated and selected states (IMAP) and to ManageSieve; hostile messages are stored and then fetched
with every attribute and searched with every key.  Every line must be answered by a tagged completion with its tag (`* BAD`
when no tag can be read), a continuation request, or BYE; the connection may end only after a BYE; `[SERVERBUG]` must never
appear; a CPU-time watchdog (SIGPROF, 3 s of processor time per line: a starved process on a busy machine does not trip it, a spinning one does) catches any synchronous spin in the event loop, and a second connection must still
be served afterwards.  Exceptions that escape a connection task are identified by class and innermost pymap frame.
"""
from __future__ import annotations
import asyncio
import random
import signal
import traceback

from . import c07
from .common import wire, backends, imapresp, mutf7, gen
from .common.model import batch, nats
from .common.report import Part, guarded

RULE = ('lines: ~70 command templates x hostile arguments (names, sequence sets, flag lists, literals of right and wrong length, search keys, dates, sections), byte-level mutations of '
        'them, and raw byte strings incl. 8-bit/NUL/long (to 60 KiB), in three connection states + ManageSieve; hostile stored messages x all FETCH attributes and SEARCH keys on dict and '
        'maildir; non-trivial = the line is not answered by plain OK (i.e. it reached an error or continuation path); distinct by (state, line)')


class Hang(Exception):
    pass


def literal_deficit(data):
    """how many bytes the non-synchronising literals announced in `data` still lack (the way the server's readline loop reads them)"""
    import re
    pos = 0
    while True:
        nl = data.find(b'\n', pos)
        if nl < 0:
            return 0
        line = data[pos:nl + 1]
        m = re.search(rb'\{(\d+)\+\}\r?\n$', line)
        if not m:
            return 0            # a complete line without a trailing literal marker: nothing more is awaited for it
        n = int(m.group(1))
        have = len(data) - (nl + 1)
        if have < n:
            return n - have
        pos = nl + 1 + n


def still_awaited(data):
    """does the command in `data` still lack input — an unfinished literal, or the rest of the line after a literal?"""
    import re
    pos = 0
    while True:
        nl = data.find(b'\n', pos)
        if nl < 0:
            return True
        m = re.search(rb'\{(\d+)\+\}\r?\n$', data[pos:nl + 1])
        if not m:
            return False
        n = int(m.group(1))
        if len(data) - (nl + 1) < n:
            return True
        pos = nl + 1 + n


def _alarm(signum, frame):
    raise Hang()


TEMPLATES = [
    b'CAPABILITY', b'NOOP', b'LOGOUT', b'ID NIL', b'ID ("a" "b")', b'STARTTLS', b'LOGIN u p', b'LOGIN {1+}\r\nu {1+}\r\np', b'LOGIN "u" "wrong"', b'AUTHENTICATE PLAIN', b'AUTHENTICATE PLAIN AHUAcA==',
    b'AUTHENTICATE BOGUS', b'SELECT INBOX', b'EXAMINE INBOX', b'SELECT %N', b'CREATE %N', b'DELETE %N', b'RENAME %N %N', b'SUBSCRIBE %N', b'UNSUBSCRIBE %N', b'LIST %N %N', b'LIST "" *',
    b'LSUB "" %', b'STATUS %N (MESSAGES UNSEEN)', b'STATUS INBOX (%A)', b'APPEND INBOX {%L+}\r\n%M', b'APPEND %N (%F) {%L+}\r\n%M', b'APPEND INBOX (\\Seen) "%D" {%L+}\r\n%M',
    b'APPEND INBOX {%L+}\r\n%M {%L+}\r\n%M', b'APPEND INBOX {99999999999+}', b'APPEND INBOX {5}', b'CHECK', b'CLOSE', b'EXPUNGE', b'UID EXPUNGE %S', b'SEARCH ALL', b'SEARCH %K', b'UID SEARCH %K %K',
    b'SEARCH CHARSET UTF-8 %K', b'SEARCH CHARSET %A ALL', b'FETCH %S (%T)', b'FETCH %S %T', b'UID FETCH %S (%T %T)', b'FETCH %S (BODY[%A])', b'FETCH %S BODY[1.2.3.HEADER.FIELDS (%A %A)]<%I.%I>',
    b'STORE %S +FLAGS (%F)', b'STORE %S FLAGS.SILENT %F', b'UID STORE %S -FLAGS (%F)', b'STORE %S %A (%F)', b'COPY %S %N', b'MOVE %S %N', b'UID COPY %S %N', b'UID MOVE %S INBOX', b'IDLE', b'UID', b'UID %A',
    b'FETCH', b'STORE 1', b'SEARCH', b'SELECT', b'LOGIN', b'LOGIN u', b'APPEND', b'LIST', b'ENABLE UTF8=ACCEPT', b'NAMESPACE', b'UNSELECT', b'GETQUOTAROOT INBOX', b'XYZZY %A', b'SORT (DATE) UTF-8 ALL',
    b'THREAD REFERENCES UTF-8 ALL', b'FETCH 1:* (BINARY.PEEK[1] BINARY.SIZE[1])', b'FETCH 1:* (ENVELOPE BODYSTRUCTURE)', b'SEARCH OR (%K) NOT %K', b'SEARCH (((((((((%K)))))))))', b'COMPRESS DEFLATE',
]
ATOMS = [b'x', b'BODY', b'HEADER', b'TEXT', b'MIME', b'1', b'0', b'-1', b'4294967296', b'99999999999999999999', b'*', b'%', b'NIL', b'()', b'"', b'\\', b'[', b']', b'{', b'}', b'{0}', b'{1}', b'{5+}', b'~{1}',
         b'\x00', b'\xff', b'\xc3\xa9', b'utf-8', b'US-ASCII', b'a b', b'"a b"', b'(a', b'a)', b'&', b'&AOk', b'"&"', b'"&AOk"', b'"&2D3-"', b'&AAA-', b'A' * 300, b'']
SEQS = [b'1', b'*', b'1:*', b'2:1', b'0', b'1,2,3', b'1:', b':', b'1:2:3', b'*:*', b'4294967296', b'1,,2', b'-1', b'1:*,*', b'99999999999999999999:1', b'a', b'']
TOKS = [b'FLAGS', b'UID', b'ENVELOPE', b'BODY', b'BODYSTRUCTURE', b'INTERNALDATE', b'RFC822', b'RFC822.SIZE', b'RFC822.HEADER', b'RFC822.TEXT', b'BODY[]', b'BODY.PEEK[]', b'BODY[TEXT]<0.1>', b'BODY[]<0.0>',
        b'BODY[]<1>', b'BODY[]<4294967296.1>', b'BODY[1.1.1.1.1.1.1.1]', b'BODY[0]', b'BODY[HEADER.FIELDS ()]', b'BODY[HEADER.FIELDS (X)]', b'BINARY[]', b'BINARY.SIZE[]', b'ALL', b'FAST', b'FULL', b'EMAILID',
        b'THREADID', b'MODSEQ', b'X-BOGUS', b'BODY[', b'BODY]', b'(FLAGS)', b'', b'BODY[HEADER.FIELDS ("X)Y" "q\\"r")]', b'BODY[HEADER.FIELDS.NOT ({3+}\r\na\rb)]', b'BODY[HEADER.FIELDS ("a(b" "]")]']
KEYS = [b'ALL', b'SEEN', b'UNSEEN', b'NEW', b'OLD', b'FROM x', b'FROM "\xff"', b'SUBJECT {1+}\r\n\xff', b'HEADER X ""', b'HEADER', b'BODY x', b'TEXT ""', b'LARGER 1', b'LARGER -1', b'SMALLER 99999999999999999999',
        b'BEFORE 1-Jan-2020', b'ON 32-Jan-2020', b'SINCE 1-Foo-2020', b'SENTBEFORE "1-Jan-2020"', b'SENTON 1-Jan-99999', b'KEYWORD x', b'KEYWORD \\Seen', b'UNKEYWORD', b'UID 1:*', b'UID', b'1:*', b'NOT', b'OR',
        b'OR ALL', b'NOT NOT NOT ALL', b'()', b'(ALL', b'EMAILID x', b'THREADID Tabc', b'MODSEQ 1', b'X-BOGUS', b'CHARSET', b'DELETED UNDELETED', b'DRAFT', b'RECENT', b'BCC x CC y TO z']
DATES = [b' 1-Jan-2020 10:00:00 +0000', b'01-Jan-2020 10:00:00 +0000', b'32-Jan-2020 10:00:00 +0000', b'01-Jan-2020 25:00:00 +0000', b'01-Jan-2020', b'x', b'', b'01-Jan-99999 00:00:00 +0000', b'01-Jan-2020 10:00:00 +9999',
         # the ends of the calendar in zones that push them over the edge; years and zones that strptime takes and the grammar does not
         b'31-Dec-9999 23:59:59 -1200', b'01-Jan-0001 00:00:00 +1400', b'01-Jan-0099 00:00:00 +0000', b'01-Jan-1800 00:00:00 +0000', b'01-Jan-2020 00:00:00 +000030',
         b'01-Jan-2020 00:00:00 Z', b'01-Jan-2020 00:00:00 +01:00', b'01-Jan-99 00:00:00 +0000', b'31-Dec-9999 23:59:59 -1200', b'01-Jan-0001 00:00:00 +1400']
FLAGSETS = [b'\\Seen', b'\\Seen \\Deleted', b'', b'\\Recent', b'\\*', b'kw', b'\\Bogus', b'\\', b'\\Seen(', b'"x"', b'\xff', b'NIL', b'a b c d e f']


def fill(r, t):
    out = bytearray()
    i = 0
    msg = None
    while i < len(t):
        if t[i:i + 1] == b'%' and i + 1 < len(t) and t[i + 1:i + 2] in b'NASFTKDLMI':
            k = t[i + 1:i + 2]
            if k == b'N':
                out += mutf7.wire_name(r.choice(gen.HOSTILE_NAMES)) if r.random() < 0.7 else r.choice(ATOMS)
            elif k == b'A':
                out += r.choice(ATOMS)
            elif k == b'S':
                out += r.choice(SEQS)
            elif k == b'F':
                out += r.choice(FLAGSETS)
            elif k == b'T':
                out += r.choice(TOKS)
            elif k == b'K':
                out += r.choice(KEYS)
            elif k == b'D':
                out += r.choice(DATES)
            elif k == b'I':
                out += r.choice([b'0', b'1', b'10', b'4294967296', b'-1', b'x', b''])
            elif k == b'L':
                msg = c07.hostile_message(r)[:2000]
                n = len(msg) if r.random() < 0.85 else r.choice([0, len(msg) + 3, max(0, len(msg) - 2)])
                out += b'%d' % n
            elif k == b'M':
                out += msg if msg is not None else b'x'
            i += 2
        else:
            out.append(t[i])
            i += 1
    return bytes(out)


def mutate(r, b):
    b = bytearray(b)
    for _ in range(r.randint(1, 4)):
        if not b:
            break
        k = r.random()
        i = r.randrange(len(b))
        if k < 0.25:
            del b[i]
        elif k < 0.5:
            b.insert(i, r.choice(b' ()[]{}"\\\r\n~0a*%\x00\xff+'))
        elif k < 0.7:
            b[i] = r.choice(b' ()[]{}"\\\r\n~0a*%\x00\xff+')
        elif k < 0.8:
            del b[i:]
        elif k < 0.9:
            b[i:i] = b[i:i + r.randint(1, 20)] * r.randint(2, 50)
        elif k < 0.96:
            b[i:i] = r.choice([b'{5}', b'{3+}\r\nabc', b'"', b'(' * 50, b' ' * 30, b'A' * 20000])
        else:
            # a run of digits grows beyond anything a number type holds; a run of wildcards, beyond what a backtracking matcher survives
            import re as _re
            m = list(_re.finditer(rb'\d+', bytes(b)))
            if m and r.random() < 0.7:
                mm = r.choice(m)
                b[mm.start():mm.end()] = r.choice([b'9' * 25, b'9' * 4400, b'0' * 5000 + b'1', b'4294967296', b'18446744073709551616'])
            else:
                b[i:i] = r.choice([b'*a' * 12 + b'*b', b'%a' * 12 + b'%b', b'*%' * 20])
    return bytes(b)


def raw_line(r):
    n = r.choice([0, 1, 3, 10, 40, 200, 5000, 60000])
    pool = list(range(256)) if r.random() < 0.5 else list(b'a1 ()[]{}"\\*%+-.,:')
    return bytes(r.choice(pool) for _ in range(min(n, 300))) * max(1, n // 300)


def gen_line(r):
    x = r.random()
    if x < 0.55:
        return fill(r, r.choice(TEMPLATES))
    if x < 0.85:
        return mutate(r, fill(r, r.choice(TEMPLATES)))
    return raw_line(r)


def crash_sig(c):
    site = c07.crash_site(c)
    return site


class Runner:
    def __init__(self, part, r, backend):
        self.part = part
        self.r = r
        self.backend = backend
        self.base = None

    async def start(self):
        from pymap.imap import IMAPServer
        if self.backend == 'dict':
            be, config = await backends.make_dict(users=[('u', 'p', ())])
            login = be.login
        else:
            self.base = backends.scratch_dir()
            config, login = await backends.make_maildir(self.base, layout=self.r.choice(['++', 'fs']), users=[('u', 'p', ())])
        self.srv = IMAPServer(login, config)
        self.config = config

    async def connect(self, state):
        c = wire.Client(self.srv)
        await c.start()
        if state >= 1:
            await c.send(b'z LOGIN u p\r\n')
        if state >= 2:
            await c.send(b'z SELECT INBOX\r\n')
        return c

    async def line(self, c, state, tag, body, family, limit=3.0):
        """send one command line (answering continuation requests), judge the reply; returns False if the connection must be replaced"""
        part = self.part
        data = tag + b' ' + body + b'\r\n'
        case = dict(state=state, backend=self.backend, line=data.decode('latin1')[:600], family=family, length=len(data))
        signal.setitimer(signal.ITIMER_PROF, limit)
        try:
            raw = await c.send(data)
            rounds = 0
            while not c.task.done() and rounds < 6 and raw.rstrip(b'\r\n').split(b'\r\n')[-1][:1] == b'+' and not _tagged(raw, tag):
                # a continuation request: literal data, a SASL response or DONE is expected
                follow = self.r.choice([b'DONE', b'*', b'AHUAcA==', b'x' * 5, b'', b'abc)', b'\xff\xfe', b'DO\rNE', b'\rDONE', b'DONE\r', b'x\ry', b'\r', b'DONE \x00', b'\x00'])
                raw += await c.send(follow + b'\r\n')
                rounds += 1
            if not c.task.done() and raw == b'':
                # an unfinished non-synchronising literal: the server legitimately waits for the bytes the client announced
                deficit = literal_deficit(data)
                if 0 < deficit <= 300000:
                    raw = await c.send(b'x' * deficit + b'\r\n')
                    if not c.task.done() and raw == b'':
                        raw = await c.send(b'\r\n')
                elif deficit > 300000:
                    part.stat('huge-literal-not-completed')
                    await c.finish()
                    return False
                elif data.count(b'"') % 2 == 1 or True:
                    raw = await c.send(b'\r\n')
        except Hang:
            signal.setitimer(signal.ITIMER_PROF, 0)
            part.violation('monitor', f'the server does not return from processing the line within {limit:g} s (event loop blocked): state {state}, {data[:200]!r}', case, signature='hang:' + family)
            raise
        finally:
            signal.setitimer(signal.ITIMER_PROF, 0)
        closed = c.task.done()
        part.case(key=repr((state, data[:300])), nontrivial=not raw.startswith(tag + b' OK'), sample=dict(state=state, line=data[:80].decode('latin1'), reply=raw[:80].decode('latin1')))
        part.trace()
        part.stat(f'state{state}:' + ('closed' if closed else 'open'))
        if b'[SERVERBUG]' in raw:
            site = crash_sig(c) or 'unknown'
            part.violation('monitor', f'internal-error BYE ({site}) for state {state} line {data[:200]!r}: {raw[-160:]!r}', case, signature='serverbug:' + site)
            return False
        site = crash_sig(c)
        if closed and site is not None:
            part.violation('monitor', f'an exception ({site}) escaped the connection task for state {state} line {data[:200]!r}; output ends {raw[-100:]!r}', case,
                           signature='write-crash:' + site)
            return False
        lines = raw.split(b'\r\n')
        has_bye = any(l.startswith(b'* BYE') for l in lines)
        has_tagged = _tagged(raw, tag)
        has_cont = any(l.startswith(b'+') for l in lines)
        untagged_bad = any(l.startswith(b'* BAD') for l in lines)
        if closed and not has_bye:
            part.violation('monitor', f'the connection was closed without BYE after state {state} line {data[:200]!r}; output {raw[-160:]!r}', case, signature='closed-without-bye')
            return False
        if not closed and not (has_tagged or has_cont or untagged_bad or has_bye):
            part.violation('monitor', f'no tagged completion, continuation request or BYE for state {state} line {data[:200]!r}; output {raw[-160:]!r}', case, signature='not-answered')
            return False
        return not closed


def _tagged(raw, tag):
    return any(l.startswith(tag + b' OK') or l.startswith(tag + b' NO') or l.startswith(tag + b' BAD') for l in raw.split(b'\r\n'))


N5K = b'9' * 5000
CORPUS = [b'APPEND INBOX {28+}\r\nSubject: x\r\n\r\nends in {5+}', b'NOOP', b'APPEND INBOX {8+}\r\n\xe9\xe9\\\xe9a {2000+}', b'NOOP', b'APPEND INBOX {6+}\r\nA: b\r\n {6+}\r\nA: b\r\n',
          b'LOGIN {5+}\r\n{1+}x {1+}\r\np', b'NOOP',
          b'FETCH ' + N5K + b' FLAGS', b'SEARCH LARGER ' + N5K, b'FETCH 1 BODY[]<' + N5K + b'.1>', b'FETCH 1 BODY[' + N5K + b']', b'UID FETCH 1:' + N5K + b' FLAGS', b'APPEND INBOX {' + N5K + b'+}',
          b'SEARCH 1:' + N5K, b'STORE ' + N5K + b' +FLAGS (\\Seen)', b'SEARCH CHARSET "\xff" ALL', b'SEARCH CHARSET {1+}\r\n\x00 ALL', b'SEARCH CHARSET unicode_escape HEADER "\\\\ud800" x',
          b'SEARCH CHARSET utf-16 SUBJECT "ab"', b'SEARCH CHARSET utf-7 SUBJECT "+2AA-"', b'SEARCH CHARSET idna FROM "xn--"', b'SEARCH CHARSET rot13 BODY x', b'SEARCH CHARSET hex BODY zz',
          b'CREATE "&2AA-"', b'LIST "" *', b'CREATE "&2ADcAA-"', b'CREATE "&3AA-"', b'LIST "" "&2AA-"', b'SELECT "&2AA-"', b'RENAME INBOX "&2AA-"', b'LIST "" *',
          b'CREATE ' + b'a' * 60, b'LIST "" "*a*a*a*a*a*a*a*a*a*b"', b'LIST "" "%a%a%a%a%a%a%a%a%a%b"', b'LSUB "*a*a*a*a*a*a*a*a*" "*a*a*a*a*b"', b'LIST "" ' + b'*' * 2000 + b'b',
          b'LIST "" "&2D3eA-"', b'LSUB "" "&AOk"', b'LIST "&AOk" *', b'SELECT "&"', b'SELECT "x&y"', b'STATUS "&AOk" (MESSAGES)', b'CREATE "a/b/c/d"', b'CREATE "p/q"', b'RENAME "p/q" "p/q/r"',
          b'RENAME INBOX "moved"', b'FETCH 1 (FLAGS)', b'SEARCH SUBJECT "\xff"', b'SEARCH CHARSET utf-8 SUBJECT {2+}\r\n\xc3\x28', b'SEARCH NOT NOT NOT SEEN', b'CREATE "."', b'DELETE ".."', b'CREATE ""',
          b'APPEND INBOX (\\Seen) " 1-Jan-2020 10:00:00 +0000" {3+}\r\nabc', b'UID SEARCH 1:*',
          b'SEARCH CHARSET UTF-8 HEADER "S\xc3\xbcbject" x', b'SEARCH ' + b'(' * 400 + b'ALL' + b')' * 400, b'SEARCH ' + b'OR ALL ' * 600 + b'ALL', b'SEARCH ' + b'NOT ' * 3000 + b'ALL',
          b'FETCH 1 (' + b'(' * 500, b'SEARCH CHARSET utf-8 HEADER {2+}\r\n\xc3\x28 x', b'STORE 1 FLAGS (' + b'(' * 300, b'AUTHENTICATE PLAIN\r\nA', b'MOVE 1:* INBOX', b'COPY 1:* "a.b"']


LOGIN_CORPUS = [b'LOGIN "\xff" p', b'LOGIN u {1+}\r\n\xff', b'LOGIN {2+}\r\n\xed\xa0 x', b'LOGIN "u\x00" p', b'LOGIN ' + b'a' * 3000 + b' p', b'AUTHENTICATE PLAIN ' + b'/' * 400,
                b'AUTHENTICATE PLAIN\r\n/wD/AP8=', b'AUTHENTICATE LOGIN\r\n/w==\r\n/w==', b'LOGIN "\xe2\x80\xa8" "\xe2\x80\xa8"', b'LOGIN u\x7f p']


async def fuzz_lines(part, r, backend, nlines):
    run = Runner(part, r, backend)
    await run.start()
    try:
        conns = {}
        for k, body in enumerate(LOGIN_CORPUS):
            c = await run.connect(0)
            parts_ = body.split(b'\r\n')
            if body.startswith(b'AUTHENTICATE') and len(parts_) > 1:
                raw = await c.send(b'l%d ' % k + parts_[0] + b'\r\n')
                for extra in parts_[1:]:
                    if not c.task.done():
                        raw += await c.send(extra + b'\r\n')
                site = crash_sig(c)
                if b'[SERVERBUG]' in raw or site:
                    part.violation('monitor', f'internal-error BYE ({site}) for the SASL exchange {body!r}: {raw[-120:]!r}', dict(state=0, line=body.decode('latin1')), signature='serverbug:' + str(site))
            else:
                await run.line(c, 0, b'l%d' % k, body, 'login-corpus')
            try:
                await c.eof()
            except Exception:
                pass
        c = await run.connect(2)
        for k, body in enumerate(CORPUS):
            if c.task.done():
                await c.finish()
                c = await run.connect(2)
            if not await run.line(c, 2, b'c%d' % k, body, 'corpus'):
                try:
                    await c.finish()
                except Exception:
                    pass
                c = await run.connect(2)
        await c.eof()
        for k in range(nlines):
            state = r.choice([0, 1, 1, 2, 2, 2])
            c = conns.get(state)
            if c is None or c.task.done():
                if c is not None:
                    await c.finish()
                c = conns[state] = await run.connect(state)
            body = gen_line(r)
            if b'\n' in body.replace(b'\r\n', b''):
                body = body.replace(b'\n', b' ')       # one line per command; literals keep their CRLF
            ok = await run.line(c, state, b't%d' % k, body, 'line')
            if not ok:
                try:
                    await c.finish()
                except Exception:
                    pass
                conns[state] = None
            elif b'}\r\n' in body or b'}\n' in body:
                # a literal with its data inline: when the announced length is not the length of what follows (a mutation, a deliberate mismatch) the bytes left over
                # are commands of their own, and one that ends like an announcement swallows the beginning of the next line - which then has no answer of its
                # own although nothing is wrong.  Such a connection is not reused.
                await c.eof()
                conns[state] = None
            elif state != 0 and (b'LOGOUT' in body.upper() or b'CLOSE' in body.upper() or b'SELECT' in body.upper() or b'EXAMINE' in body.upper() or b'AUTHENTICATE' in body.upper()):
                await c.eof()
                conns[state] = None
        # other connections are still served
        c = await run.connect(1)
        raw = await c.send(b'q NOOP\r\n')
        if not raw.startswith(b'q OK'):
            part.violation('monitor', f'after the fuzzed lines a fresh connection is not served: {raw!r}', dict(backend=backend), signature='others-not-served')
        await c.eof()
        for c in conns.values():
            if c is not None:
                await c.eof()
    finally:
        if run.base:
            backends.rmtree(run.base)


async def stored_messages(part, r, backend, n):
    run = Runner(part, r, backend)
    await run.start()
    try:
        c = await run.connect(2)
        k = 0
        for _ in range(n):
            msg = c07.hostile_message(r) if r.random() < 0.7 else deep_message(r)
            cmds = [b'APPEND INBOX {%d+}\r\n' % len(msg) + msg]
            cmds += [b'FETCH * (' + a + b')' for a in c07.FETCH_ATTRS] + [b'FETCH * FULL', b'UID FETCH * (BODY.PEEK[1.1] BODY.PEEK[2.HEADER] BODY.PEEK[1.TEXT]<2.3>)']
            cmds += [b'SEARCH ' + key for key in (b'TEXT "x"', b'BODY "x"', b'SENTSINCE 1-Jan-2020', b'SENTBEFORE 1-Jan-2020', b'FROM "a"', b'TO "b"', b'CC "c"', b'BCC "d"', b'SUBJECT "e"',
                                                   b'HEADER Date ""', b'HEADER X-A "a"', b'LARGER 1', b'SMALLER 100', b'ON 1-Jan-2020', b'THREADID Tx', b'EMAILID Mx', b'NEW', b'OR ALL NOT ALL')]
            # part paths as deep as the nesting goes, and around the depth where the MIME parser stops following it (100)
            for depth_ in (3, 99, 100, 101, 120):
                path = b'.'.join([b'1'] * depth_)
                cmds.append(b'FETCH * (BODY.PEEK[' + path + b'.HEADER] BODY.PEEK[' + path + b'.TEXT] BODY.PEEK[' + path + b'.MIME] BODY.PEEK[' + path + b'])')
            cmds += [b'COPY * INBOX', b'STORE * +FLAGS (\\Deleted)', b'EXPUNGE']
            for body in cmds:
                if c.task.done():
                    await c.finish()
                    c = await run.connect(2)
                k += 1
                ok = await run.line(c, 2, b's%d' % k, body, 'stored:' + body.split(b' ')[0].decode() + (':' + body.split(b'(')[1].split(b'[')[0].split(b')')[0].split(b'.')[0].decode() if b'(' in body and body.startswith(b'FETCH') else ''))
                if not ok:
                    try:
                        await c.finish()
                    except Exception:
                        pass
                    c = await run.connect(2)
        await c.eof()
    finally:
        if run.base:
            backends.rmtree(run.base)


STRUCTURED = [b'Subject', b'From', b'To', b'Cc', b'Date', b'Message-Id', b'References', b'In-Reply-To', b'Content-Type', b'Content-Disposition', b'Content-Transfer-Encoding']


async def header_sweep(part, r, backend, share, nshares):
    """every hostile header value in every header the server gives a structure to — systematically, not by chance"""
    run = Runner(part, r, backend)
    await run.start()
    try:
        c = await run.connect(2)
        k = 0
        for vi, v in enumerate(c07.HEADER_VALUES):
            if vi % nshares != share:
                continue
            for eol in (b'\r\n',):
                msg = b''.join(h + b': ' + v + eol for h in STRUCTURED) + eol + b'body' + eol
                for body in (b'APPEND INBOX {%d+}\r\n' % len(msg) + msg, b'FETCH * (ENVELOPE BODYSTRUCTURE)', b'SEARCH SUBJECT x FROM y HEADER References z SENTSINCE 1-Jan-2020',
                             b'FETCH * (BODY.PEEK[HEADER.FIELDS (Subject From)] THREADID)', b'STORE * +FLAGS (\\Deleted)', b'EXPUNGE'):
                    if c.task.done():
                        await c.finish()
                        c = await run.connect(2)
                    k += 1
                    if not await run.line(c, 2, b'h%d' % k, body, 'header-sweep:' + body.split(b' ')[0].decode()):
                        try:
                            await c.finish()
                        except Exception:
                            pass
                        c = await run.connect(2)
        await c.eof()
    finally:
        if run.base:
            backends.rmtree(run.base)


async def deep_names(part, r, backend):
    """a hierarchy deeper than any recursion limit: whatever walks mailbox names level by level must do it in a loop"""
    run = Runner(part, r, backend)
    await run.start()
    try:
        c = await run.connect(2)
        depth = r.choice([1050, 1200])
        deep = b'/'.join([b'a'] * depth)
        for k, body in enumerate((b'CREATE ' + deep, b'LIST "" *', b'LIST "" %', b'LIST "" "%/%"', b'SUBSCRIBE ' + deep, b'LSUB "" *', b'STATUS ' + deep + b' (MESSAGES)', b'LIST "" ' + deep,
                                  b'RENAME a b', b'LIST "" *', b'UNSUBSCRIBE ' + deep, b'DELETE b/' + deep[2:], b'DELETE ' + deep, b'LIST "" *')):
            if c.task.done():
                await c.finish()
                c = await run.connect(2)
            # the listing of n nested levels is n names of up to 2n bytes - megabytes, and legitimately seconds
            if not await run.line(c, 2, b'd%d' % k, body, 'deep-names:' + body.split(b' ')[0].decode(), limit=30.0):
                try:
                    await c.finish()
                except Exception:
                    pass
                c = await run.connect(2)
        await c.eof()
    finally:
        if run.base:
            backends.rmtree(run.base)


def deep_message(r):
    depth = r.choice([5, 30, 120, 400, 1200])
    x = r.random()
    if x < 0.3:
        m = b'Subject: ' + b'Re: ' * depth + b'x\r\n\r\nbody\r\n'
        return m
    m = b'A: b\r\n\r\nleaf\r\n'
    for d in range(depth):
        if x < 0.6 or (x < 0.8 and d % 2):
            m = b'Content-Type: message/rfc822\r\n\r\n' + m
        else:
            b = b'b%d' % d
            m = b'Content-Type: multipart/mixed; boundary=' + b + b'\r\n\r\n--' + b + b'\r\n' + m + b'\r\n--' + b + b'--\r\n'
    return m


async def sieve_lines(part, r, n):
    from . import c19
    srv, config, backend = await c19.new_server()
    c = wire.Client(srv)
    await c.start()
    authed = False
    for k in range(n):
        if c.task.done():
            await c.finish()
            c = wire.Client(srv)
            await c.start()
            authed = False
        if not authed and r.random() < 0.5:
            await c.send(b'AUTHENTICATE "PLAIN" "' + c19.b64plain('', 'alice', 'pwalice') + b'"\r\n')
            authed = True
        w, tok, op = c19.gen_cmd(r, c19.compiles)
        line = w if r.random() < 0.5 else mutate(r, w.rstrip(b'\r\n')).replace(b'\n', b' ') + b'\r\n'
        case = dict(state='sieve', line=line.decode('latin1')[:400])
        signal.setitimer(signal.ITIMER_PROF, 3.0)
        try:
            raw = await c.send(line)
            if not c.task.done() and raw == b'':
                deficit = literal_deficit(line)
                if deficit > 300000:
                    part.stat('huge-literal-not-completed')
                    await c.finish()
                    continue
                if not still_awaited(line):
                    # every announced literal was delivered in full and the line is complete: nothing can still be awaited
                    part.violation('monitor', f'ManageSieve gives no answer to the complete command {line[:200]!r} (no literal is outstanding)', case, signature='sieve-no-answer')
                raw = await c.send(b'x' * max(0, deficit) + b'\r\n')          # an unfinished literal swallowed the line end
                if not c.task.done() and raw == b'':
                    raw = await c.send(b'\r\n')
        except Hang:
            part.violation('monitor', f'ManageSieve does not return from processing {line[:200]!r} within 3 s', case, signature='hang:sieve')
            raise
        finally:
            signal.setitimer(signal.ITIMER_PROF, 0)
        part.case(key='sieve:' + repr(line[:300]), nontrivial=not raw.endswith(b'OK\r\n'))
        try:
            rs = imapresp.parse(raw)
            first = imapresp.atom(rs[-1][0]) if rs and rs[-1] else None
            last = first if first in (b'OK', b'NO', b'BYE') else (b'"' if rs else b'')
        except imapresp.Malformed:
            last = raw.rstrip(b'\r\n').split(b'\r\n')[-1] if raw else b''
        site = c07.crash_site(c)
        if site is not None:
            part.violation('monitor', f'ManageSieve: {site} escaped the connection task on {line[:200]!r}', case, signature='sieve-crash:' + site)
        elif c.task.done() and not last.startswith(b'BYE'):
            part.violation('monitor', f'ManageSieve closed the connection without BYE on {line[:200]!r}: {raw[-100:]!r}', case, signature='sieve-closed-without-bye')
        elif not c.task.done() and not (last.startswith(b'OK') or last.startswith(b'NO') or last.startswith(b'BYE') or last.startswith(b'"') or last.startswith(b'{')):
            part.violation('monitor', f'ManageSieve: no OK/NO/BYE for {line[:200]!r}: {raw[-120:]!r}', case, signature='sieve-not-answered')
        if b'UNAUTHENTICATE' in line.upper() or b'LOGOUT' in line.upper():
            authed = False
    await c.eof()


# ------------------------------------------------------------------ the outcome table (model correspondence)
async def outcome_sequences(part, r, n):
    from pymap.imap import IMAPServer
    lines = []
    obs = []
    cases = []
    OUT = {
        'ok': (b'NOOP', 'resp:0:0'), 'bad': (b'BOGUS', 'resp:1:0'), 'badargs': (b'SELECT', 'resp:1:0'), 'refused': (b'SELECT nobox', 'rerr:0'), 'no-returned': (b'CREATE INBOX', 'resp:0:0'),
        'autherr': (b'AUTHENTICATE PLAIN\r\n*', 'autherr'), 'logout': (b'LOGOUT', 'rerr:1'), 'gate': (b'CHECK', 'resp:1:0'), 'loginfail': (b'LOGIN u wrong', 'rerr:0'),
    }
    for _ in range(n):
        be, config = await backends.make_dict(users=[('u', 'p', ())])
        srv = IMAPServer(be.login, config)
        c = wire.Client(srv)
        await c.start()
        await c.send(b'z LOGIN u p\r\n')
        seq = [r.choice(['ok', 'bad', 'bad', 'badargs', 'refused', 'no-returned', 'gate', 'logout']) for _ in range(r.randint(2, 9))]
        if r.random() < 0.3:
            seq = ['bad'] * r.randint(3, 6) + seq
        bad = 0
        for j, name in enumerate(seq):
            if c.task.done():
                break
            body, oc = OUT[name]
            raw = await c.send(b't ' + body + b'\r\n')
            ls = [l for l in raw.split(b'\r\n') if l]
            wrote = []
            for l in ls:
                if l.startswith(b'* BYE'):
                    wrote.append('serverbug' if b'SERVERBUG' in l else 'bye')
                elif l.startswith(b't '):
                    wrote.append('tagged')
            lines.append(f'loop {bad} {oc}')
            obs.append((','.join(wrote), 'close' if c.task.done() else 'continue'))
            cases.append(dict(sequence=seq, at=j))
            # the model's counter after this step is read back from the model reply; track it here the same way the harness tracks state
            if oc.startswith('resp:1'):
                bad += 1
            elif oc.startswith('resp:0'):
                bad = 0
        await c.eof()
    res = batch(lines) if lines else []
    for line, m, o, case in zip(lines, res, obs, cases):
        mw, mc, mb = m.split(' ')
        part.case(key='oc:' + repr((line, case['sequence'][:case['at'] + 1])), nontrivial=True)
        part.stat('outcome-steps')
        if (mw, mc) != o:
            part.violation('correspondence', f'outcome table: {line} in {case["sequence"]} at {case["at"]}: implementation wrote {o[0]!r} and {o[1]}s, Loop.handle says {mw!r} and {mc}', case,
                           signature='loop-table')


def l1_modutf7(part, r, n):
    from pymap.parsing.modutf7 import modutf7_decode
    lines = []
    inputs = []
    for _ in range(n):
        raw = bytes(r.choice(list(b'&-A,/+Q8=Ag ') + [0xe9, 0x7f, 0x26, 0x26]) for _ in range(r.randint(0, 12)))
        inputs.append(raw)
        lines.append('modutf7dec ' + nats(raw))
    res = batch(lines)
    hangs = 0
    for raw, m in zip(inputs, res):
        if hangs >= 3:
            break
        signal.setitimer(signal.ITIMER_PROF, 0.5)
        try:
            try:
                modutf7_decode(raw)
                impl = 'value'
            except ValueError:
                impl = 'ERR'
        except Hang:
            part.violation('monitor', f'modutf7_decode({raw!r}) does not terminate', dict(level='L1', encoded=list(raw)), signature='hang:modutf7_decode')
            hangs += 1
            continue
        except Exception as exc:
            part.violation('monitor', f'modutf7_decode({raw!r}) raised {type(exc).__name__}: it must return a string or raise ValueError', dict(level='L1', encoded=list(raw)),
                           signature='modutf7-exception')
            continue
        finally:
            signal.setitimer(signal.ITIMER_PROF, 0)
        part.case(key='mu:' + raw.hex(), nontrivial=b'&' in raw)
        if m != 'ERR' and impl == 'ERR':
            part.violation('correspondence', f'modutf7_decode({raw!r}) raises ValueError, ModUtf7.decodeName accepts it: {m}', dict(level='L1', encoded=list(raw)), signature='l1-mutf7-reject')


# ------------------------------------------------------------------ multi-session programs: every command of every session is answered
MULTI_CORPUS = [
    # a message is delivered to a session's \\Recent set and expunged by someone else before that session has synchronised it
    dict(nsess=2, program=[['select', 1, 0, False], ['append', 0, 0, [], 1, 0, 0], ['select', 0, 0, False], ['store', 0, False, '*', 1, [3], False], ['expunge', 0, None],
                           ['fetch', 1, False, '1:*', ['FLAGS']], ['noop', 1], ['search', 1, False, None, None, []]]),
    dict(nsess=2, program=[['append', 0, 0, [], 1, 0, 0], ['select', 1, 0, False], ['append', 0, 0, [3], 2, 0, 0], ['select', 0, 0, False], ['expunge', 0, None],
                           ['store', 1, False, '1:*', 1, [0], True], ['noop', 1], ['fetch', 1, False, '1:*', ['UID']]]),
    dict(nsess=3, program=[['select', 1, 0, False], ['select', 2, 0, True], ['append', 0, 0, [3], 1, 0, 0], ['copy', 1, False, False, '1:*', 0, 0], ['select', 0, 0, False],
                           ['expunge', 0, None], ['search', 1, False, '1:*', None, []], ['fetch', 2, False, '1:*', ['FLAGS']], ['store', 1, False, '1:*', 2, [3], False]]),
]


def stale_sweep():
    """every kind of command as the very next command of a session whose view another session has just made stale - systematically, not by chance"""
    changes = [[['store', 1, False, '1', 1, [3], True], ['expunge', 1, None]], [['store', 1, False, '2', 1, [3], True], ['expunge', 1, None]],
               [['store', 1, False, '1:*', 1, [3], True], ['expunge', 1, None]], [['append', 1, 0, [], 9, 0, 0]], [['store', 1, False, '1', 1, [1], False]],
               [['copy', 1, True, False, '1', 1, 0]], [['store', 1, False, '3', 1, [3], True], ['expunge', 1, None], ['append', 1, 0, [3], 9, 0, 0]]]
    cmds = [['copy', 0, False, False, '1', 1, 0], ['copy', 0, False, False, '1:2', 1, 0], ['copy', 0, False, True, '101:*', 1, 0], ['copy', 0, True, False, '1:*', 1, 0],
            ['copy', 0, True, True, '101', 2, 0], ['store', 0, False, '1:*', 1, [1], False], ['store', 0, True, '101:103', 0, [0], True], ['fetch', 0, False, '1:*', ['FLAGS', 'BODY[]']],
            ['fetch', 0, True, '1:*', ['UID']], ['search', 0, False, '1:*', None, []], ['search', 0, True, None, '101:*', []], ['expunge', 0, None], ['expunge', 0, '101:103'],
            ['close', 0], ['check', 0], ['select', 0, 0, False], ['select', 0, 0, True], ['status', 0, 0]]
    out = []
    for ch in changes:
        for cmd in cmds:
            prog = [['append', 1, 0, [3] if k == 1 else [], k + 1, 0, 0] for k in range(3)]
            prog += [['select', 0, 0, False], ['select', 1, 0, False]] + ch + [cmd, ['noop', 0], cmd, ['fetch', 0, False, '1:*', ['UID']]]
            out.append((2, prog))
    return out


def multi_session(part, r, n, share=0, nshares=1):
    from .common import l3
    from . import c17
    cases = [(c['nsess'], c['program']) for c in MULTI_CORPUS] + stale_sweep()[share::nshares]
    for _ in range(n):
        nsess = r.choice([2, 2, 3])
        prog = l3.gen_program(r, nsess, r.randint(5, 16), dict(c17.PROFILE, weights=dict(c17.PROFILE['weights'], store=14, fetch=12, expunge=10, search=6, append=18), recent_in_flags=0.0))
        prog = [op for k, op in enumerate(prog) if not (k < nsess and op[0] == 'select' and r.random() < 0.5)]
        cases.append((nsess, prog))
    for nsess, prog in cases:
        case = dict(nsess=nsess, program=prog, family='multi-session')
        try:
            ext, outs, final = asyncio.run(l3.run_real(nsess, prog, dumps=False))
        except Exception as exc:   # noqa
            part.violation('monitor', f'multi-session program: {type(exc).__name__}: {exc}', dict(case, traceback=traceback.format_exc()[-800:]), signature=f'exception:{type(exc).__name__}')
            continue
        part.case(key='multi:' + repr(prog), nontrivial=True)
        part.trace()
        for j, (op, raw) in enumerate(zip(ext, outs)):
            if b'[SERVERBUG]' in raw:
                part.violation('monitor', f'internal-error BYE answering command #{j} {op} of the multi-session program {ext}: {raw[-100:]!r}', dict(case, at=j), signature='serverbug:multi-session')
                break
            if raw == b'' or not any(l.startswith(b'a OK') or l.startswith(b'a NO') or l.startswith(b'a BAD') for l in raw.split(b'\r\n')):
                part.violation('monitor', f'command #{j} {op} of the multi-session program {ext} got no tagged completion: {raw[-100:]!r}', dict(case, at=j), signature='multi-session-not-answered')
                break


def worker(job):
    import logging
    logging.disable(logging.CRITICAL)          # pymap logs handled exceptions of the sieve listener
    seed, nlines, nmsgs, nseq = job[:4]
    share, nshares = job[4:6] if len(job) > 4 else (0, 1)
    r = random.Random(seed)
    part = Part()
    signal.signal(signal.SIGPROF, _alarm)
    for backend in ('dict', 'maildir'):
        try:
            asyncio.run(header_sweep(part, r, backend, share, nshares))
        except Hang:
            pass
        except Exception as exc:   # noqa
            part.violation('monitor', f'C06 header sweep ({backend}): {type(exc).__name__}: {exc}', dict(seed=seed, traceback=traceback.format_exc()[-1200:]),
                           signature=f'exception:{type(exc).__name__}')
    for backend in (('dict', 'maildir') if share % 4 == 0 else ()):
        try:
            asyncio.run(deep_names(part, r, backend))
        except Hang:
            pass
        except Exception as exc:   # noqa
            part.violation('monitor', f'C06 deep names ({backend}): {type(exc).__name__}: {exc}', dict(seed=seed, traceback=traceback.format_exc()[-1200:]), signature=f'exception:{type(exc).__name__}')
    for backend in (['dict', 'maildir'] if seed % 2 == 0 else ['dict']):
        try:
            asyncio.run(fuzz_lines(part, r, backend, nlines if backend == 'dict' else nlines // 3))
        except Hang:
            pass
        except Exception as exc:   # noqa
            part.violation('monitor', f'C06 line fuzz ({backend}): {type(exc).__name__}: {exc}', dict(seed=seed, traceback=traceback.format_exc()[-1200:]), signature=f'exception:{type(exc).__name__}')
        try:
            asyncio.run(stored_messages(part, r, backend, nmsgs))
        except Hang:
            pass
        except Exception as exc:   # noqa
            part.violation('monitor', f'C06 stored messages ({backend}): {type(exc).__name__}: {exc}', dict(seed=seed, traceback=traceback.format_exc()[-1200:]), signature=f'exception:{type(exc).__name__}')
    try:
        asyncio.run(sieve_lines(part, r, nlines // 2))
    except Hang:
        pass
    except Exception as exc:   # noqa
        part.violation('monitor', f'C06 sieve: {type(exc).__name__}: {exc}', dict(seed=seed, traceback=traceback.format_exc()[-1200:]), signature=f'exception:{type(exc).__name__}')
    with guarded(part, 'C06 multi-session', dict(seed=seed)):
        multi_session(part, r, max(4, nlines // 12), share, nshares)
    with guarded(part, 'C06 outcome table', dict(seed=seed)):
        asyncio.run(outcome_sequences(part, r, nseq))
    with guarded(part, 'C06 modutf7', dict(seed=seed)):
        l1_modutf7(part, r, nlines * 3)
    signal.setitimer(signal.ITIMER_PROF, 0)
    return part.result()


def run(ctx):
    ctx.rep.rule = RULE
    ctx.rep.assumptions = ['the email package, the re engine and the codecs are not modelled: termination and outcome class of their calls are observed, not proved',
                           'a synchronous spin is detected by a processor-time watchdog (SIGPROF) in the harness process: 3 s of CPU per line; wall-clock time is not used, so a loaded machine raises no alarm',
                           '"* BAD" is accepted as the answer to a line from which no tag can be read']
    nw = ctx.workers
    ctx.pmap(worker, [(ctx.seed * 1000 + 20 + k, ctx.budget(150, 2500), ctx.budget(4, 60), ctx.budget(8, 100), k, nw) for k in range(nw)])


def replay(case):
    case = case.get('case', case)
    print(case)
    print('re-run the check with the same VERIF_SEED to reproduce')
    return 0
