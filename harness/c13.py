"""C13 — SEARCH returns exactly the matching messages.

Tie: the real server's SEARCH / UID SEARCH results vs the Lean `Search.search` (criteria dispatch, conjunction, OR, NOT,
sequence/UID sets with `*`, flags incl. \\Recent, dates, sizes, and the first-sequence-set pre-filter — about which crit_iff,
C13_prefilter_sound, C13_exact, C13_uid_equiv, C13_algebra are proved); string-matching keys enter the model as oracle bits.
Monitor: an independent Python evaluator of RFC 3501 6.4.4 over the stored bytes (own header parser for the generated, plain
ASCII messages; own sequence-set evaluator) — it also supplies the oracle bits; UID SEARCH must equal the UIDs of SEARCH;
logically equivalent rewritings (double negation, De Morgan, OR commutativity, key order, redundant ALL) must return the
same set; a second session whose view still contains messages expunged by someone else is searched too.
"""
from __future__ import annotations
import asyncio
import random
import re

from .common import wire, backends, imapresp, l3
from .common.model import batch
from .common.report import Part, guarded

RULE = ('random mailboxes of 3-9 generated messages (flags incl. keywords, sizes, internal dates, Date/From/To/Cc/Bcc/Subject/X- headers, bodies) x random key trees '
        'of depth <= 4 over every supported key; each query is issued as SEARCH and UID SEARCH plus one equivalent rewriting; non-trivial = the result is neither empty '
        'nor the whole view and the key tree has at least one OR/NOT/parenthesis; distinct by (mailbox, query)')

NAMES = ['Alice', 'Bob', 'Carol', 'Dave']
HOSTS = ['example.com', 'test.org']
WORDS = ['hello', 'World', 'invoice', 'meeting', 'Subject', 'urgent', 'lunch']
MONTHS = l3.MONTHS
FLAGNAMES = {0: b'SEEN', 1: b'FLAGGED', 2: b'ANSWERED', 3: b'DELETED', 4: b'DRAFT'}


def addr(r):
    n = r.choice(NAMES)
    return f'{n} <{n.lower()}@{r.choice(HOSTS)}>'


def clock(r):
    """time of day and zone: RFC 3501 6.4.4 compares the date as written, "disregarding time and timezone", so neither
    may move a message to another day — half of the draws sit within the zone offset of midnight"""
    if r.random() < 0.4:
        return r.choice(['10:00:00 +0000', '12:00:00 +0000'])
    return r.choice(['00:10:00', '23:50:00', '00:00:00', '23:59:59', '05:30:00', '18:45:00']) + ' ' + \
        r.choice(['+0000', '-0500', '+0900', '+1300', '-1100', '+0530', '-0030'])


def gen_message(r, k):
    hdr = []
    fields = {}

    def add(name, val):
        hdr.append(f'{name}: {val}')
        fields.setdefault(name.lower(), []).append(val)
    add('From', addr(r))
    if r.random() < 0.8:
        add('To', ', '.join(addr(r) for _ in range(r.randint(1, 2))))
    if r.random() < 0.3:
        add('Cc', addr(r))
    if r.random() < 0.2:
        add('Bcc', addr(r))
    add('Subject', ' '.join(r.choice(WORDS) for _ in range(r.randint(1, 3))))
    sday = None
    if r.random() < 0.8:
        sday = r.randint(1, 27)
        add('Date', f'{sday:02d} Feb 2020 {clock(r)}')
    if r.random() < 0.4:
        add('X-Tag', r.choice(WORDS))
    body = ' '.join(r.choice(WORDS + ['alice', 'zebra']) for _ in range(r.randint(0, 8))) + '\r\n' + 'pad ' * r.randint(0, 30 * (k % 3))
    searchable = body
    if r.random() < 0.3:
        # a MIME message: BODY and TEXT look into every text part and into the header of every nested part, not only the first one
        # (the boundary shares no letters with any needle; a non-text part's data is not searched, its header is)
        bnd = '=_07_=' + str(k)
        hdr.append(f'Content-Type: multipart/{r.choice(["mixed", "alternative"])}; boundary="{bnd}"')
        parts, seen = [], []
        for pi in range(r.randint(2, 4)):
            words = ' '.join(r.choice(WORDS + ['alice', 'zebra', 'hello']) for _ in range(r.randint(0, 4)))
            kind_ = r.choice(['text/plain', 'text/plain', 'text/html', 'application/octet-stream'] if pi else ['text/plain', 'application/octet-stream'])
            ph = [f'Content-Type: {kind_}']
            if r.random() < 0.4:
                ph.append(f'Content-Description: {r.choice(WORDS + ["zebra", "alice"])}')
            if r.random() < 0.3:
                ph.append(f'Content-Disposition: attachment; filename="{r.choice(WORDS)}.txt"')
            parts.append('--' + bnd + '\r\n' + '\r\n'.join(ph) + '\r\n\r\n' + words + '\r\n')
            seen.append('\n'.join(ph))
            if kind_.startswith('text/'):
                seen.append(words)
        body = ''.join(parts) + '--' + bnd + '--'
        searchable = '\n'.join(seen)
    raw = ('\r\n'.join(hdr) + '\r\n\r\n' + body + '\r\n').encode('ascii')
    flags = sorted(set(r.sample([0, 1, 2, 3, 4, 5, 6], r.randint(0, 3))))
    iday = r.randint(1, 27)
    return dict(raw=raw, fields=fields, body=searchable, flags=flags, iday=iday, iclock=clock(r), sday=sday, header_text='\r\n'.join(hdr))


# ---------------------------------------------------------------- key trees
def gen_key(r, depth, n, uidbase):
    x = r.random()
    if depth > 0 and x < 0.14:
        return ['or', gen_key(r, depth - 1, n, uidbase), gen_key(r, depth - 1, n, uidbase)]
    if depth > 0 and x < 0.30:
        return ['not', gen_key(r, depth - 1, n, uidbase)]
    if depth > 0 and x < 0.40:
        return ['and'] + with_lookalikes(r, [gen_key(r, depth - 1, n, uidbase) for _ in range(r.randint(1, 3))])
    y = r.random()
    if y < 0.12:
        from .common import gen
        return ['seq', gen.seqset(r, n, 0)]
    if y < 0.22:
        from .common import gen
        return ['uid', gen.seqset(r, n, uidbase)]
    if y < 0.42:
        return ['flag', r.randint(0, 4), r.random() < 0.5]
    if y < 0.47:
        return ['kw', r.choice([5, 6]), r.random() < 0.5]
    if y < 0.52:
        return [r.choice(['new', 'old', 'recent'])]
    if y < 0.60:
        return ['idate', r.randint(0, 2), r.randint(1, 28)]
    if y < 0.68:
        return ['sdate', r.randint(0, 2), r.randint(1, 28)]
    if y < 0.75:
        return ['size', r.random() < 0.5, r.choice([0, 60, 100, 150, 250, 400, 10000])]
    if y < 0.85:
        return ['env', r.choice(['FROM', 'TO', 'CC', 'BCC', 'SUBJECT']), r.choice(['alice', 'Bob', 'example.com', 'HELLO', 'invoice', 'nomatch', 'carol@test.org'])]
    if y < 0.90:
        return ['header', r.choice(['X-Tag', 'subject', 'From', 'Date', 'X-None']), r.choice(['', 'hello', 'urgent', 'alice', '2020'])]
    if y < 0.95:
        return [r.choice(['body', 'text']), r.choice(['hello', 'zebra', 'Subject', 'alice', 'pad pad', 'nomatch', 'X-Tag'])]
    return ['all']


def lookalike(r, k):
    """a key that differs from k in exactly one respect (kind of set, which date, polarity, which field): conjunctions of look-alikes
    are where a key collection that deduplicates too eagerly loses a conjunct"""
    t = k[0]
    if t == 'seq':
        return ['uid', k[1]]
    if t == 'uid':
        return ['seq', k[1]]
    if t == 'idate':
        return r.choice([['sdate', k[1], k[2]], ['idate', (k[1] + 1) % 3, k[2]]])
    if t == 'sdate':
        return r.choice([['idate', k[1], k[2]], ['sdate', (k[1] + 1) % 3, k[2]]])
    if t == 'flag':
        return r.choice([['flag', k[1], not k[2]], ['flag', (k[1] + 1) % 5, k[2]]])
    if t == 'kw':
        return ['kw', k[1], not k[2]]
    if t == 'size':
        # numbers that differ by 2**61 - 1 have the same Python hash and are different numbers all the same
        return r.choice([['size', not k[1], k[2]], ['size', k[1], k[2] + (2 ** 61 - 1)]])
    if t == 'env':
        return ['env', r.choice([f for f in ['FROM', 'TO', 'CC', 'BCC', 'SUBJECT'] if f != k[1]]), k[2]]
    if t == 'header':
        return ['header', k[1], r.choice([v for v in ['', 'hello', 'urgent', 'alice', '2020'] if v != k[2]])]
    if t in ('body', 'text'):
        return ['text' if t == 'body' else 'body', k[1]]
    if t == 'not':
        return k[1]
    return None


def with_lookalikes(r, keys):
    out = list(keys)
    for k in keys:
        if r.random() < 0.3:
            la = lookalike(r, k)
            if la is not None:
                out.insert(r.randint(0, len(out)), la)
    return out


def day_str(d):
    return f'{d:d}-Feb-2020'.encode()


def key_wire(k):
    t = k[0]
    if t == 'or':
        return b'OR ' + key_wire(k[1]) + b' ' + key_wire(k[2])
    if t == 'not':
        return b'NOT ' + key_wire(k[1])
    if t == 'and':
        return b'(' + b' '.join(key_wire(x) for x in k[1:]) + b')'
    if t == 'seq':
        return k[1].encode()
    if t == 'uid':
        return b'UID ' + k[1].encode()
    if t == 'flag':
        return (b'' if k[2] else b'UN') + FLAGNAMES[k[1]]
    if t == 'kw':
        return (b'KEYWORD ' if k[2] else b'UNKEYWORD ') + l3.FLAGS[k[1]]
    if t in ('new', 'old', 'recent', 'all'):
        return t.upper().encode()
    if t == 'idate':
        return [b'BEFORE ', b'ON ', b'SINCE '][k[1]] + day_str(k[2])
    if t == 'sdate':
        return [b'SENTBEFORE ', b'SENTON ', b'SENTSINCE '][k[1]] + day_str(k[2])
    if t == 'size':
        return (b'LARGER ' if k[1] else b'SMALLER ') + b'%d' % k[2]
    if t == 'env':
        return k[1].encode() + b' "' + k[2].encode() + b'"'
    if t == 'header':
        return b'HEADER ' + k[1].encode() + b' "' + k[2].encode() + b'"'
    if t in ('body', 'text'):
        return t.upper().encode() + b' "' + k[1].encode() + b'"'
    raise ValueError(k)


# ---------------------------------------------------------------- independent evaluator (RFC 3501 6.4.4)
def contains(hay, needle):
    return needle.lower() in hay.lower()


def ev(k, m, maxseq, maxuid):
    t = k[0]
    if t == 'all':
        return True
    if t == 'or':
        return ev(k[1], m, maxseq, maxuid) or ev(k[2], m, maxseq, maxuid)
    if t == 'not':
        return not ev(k[1], m, maxseq, maxuid)
    if t == 'and':
        return all(ev(x, m, maxseq, maxuid) for x in k[1:])
    if t == 'seq':
        return m['seq'] in l3.rfc_set(k[1], maxseq)
    if t == 'uid':
        return m['uid'] in l3.rfc_set(k[1], maxuid)
    if t in ('flag', 'kw'):
        return (k[1] in m['flags']) == k[2]
    if t == 'recent':
        return m['recent']
    if t == 'old':
        return not m['recent']
    if t == 'new':
        return m['recent'] and 0 not in m['flags']
    if t == 'idate':
        return [m['iday'] < k[2], m['iday'] == k[2], m['iday'] >= k[2]][k[1]]
    if t == 'sdate':
        if m['sday'] is None:
            return False
        return [m['sday'] < k[2], m['sday'] == k[2], m['sday'] >= k[2]][k[1]]
    if t == 'size':
        return m['size'] > k[2] if k[1] else m['size'] < k[2]
    if t == 'env':
        return any(contains(v, k[2]) for v in m['fields'].get(k[1].lower(), []))
    if t == 'header':
        vals = m['fields'].get(k[1].lower())
        if vals is None:
            return False
        return any(contains(v, k[2]) for v in vals)
    if t == 'body':
        return contains(m['body'], k[1])
    if t == 'text':
        return contains(m['header_text'], k[1]) or contains(m['body'], k[1])
    raise ValueError(k)


def string_keys(k, acc):
    if k[0] in ('env', 'header', 'body', 'text'):
        key = repr(k)
        if key not in acc:
            acc[key] = (len(acc), k)
    elif k[0] in ('or', 'not', 'and'):
        for x in k[1:]:
            if isinstance(x, list):
                string_keys(x, acc)
    return acc


def key_model(k, ids):
    t = k[0]
    if t == 'or':
        return f'or {key_model(k[1], ids)} {key_model(k[2], ids)}'
    if t == 'not':
        return f'not {key_model(k[1], ids)}'
    if t == 'and':
        return f'and {len(k) - 1} ' + ' '.join(key_model(x, ids) for x in k[1:])
    if t == 'seq':
        return 'seq ' + k[1].replace(',', ';')
    if t == 'uid':
        return 'uid ' + k[1].replace(',', ';')
    if t in ('flag', 'kw'):
        return f'flag {k[1]} {int(k[2])}'
    if t == 'recent':
        return 'flag 9 1'
    if t == 'old':
        return 'flag 9 0'
    if t == 'new':
        return 'new'
    if t == 'idate':
        return f'idate {k[1]} {k[2]}'
    if t == 'sdate':
        return f'sdate {k[1]} {k[2]}'
    if t == 'size':
        return f'size {int(k[1])} {k[2]}'
    if t == 'all':
        return 'all'
    return f'text {ids[repr(k)][0]}'


def rewrite(r, k):
    """a logically equivalent key tree"""
    x = r.random()
    if x < 0.25:
        return ['not', ['not', k]]
    if x < 0.45 and k[0] == 'or':
        return ['or', k[2], k[1]]
    if x < 0.6 and k[0] == 'or':
        return ['not', ['and', ['not', k[1]], ['not', k[2]]]]
    if x < 0.75 and k[0] == 'and' and len(k) > 2:
        rest = k[1:]
        r.shuffle(rest)
        return ['and'] + rest
    if x < 0.9:
        return ['and', ['all'], k]
    return ['or', k, k]


def structured(k):
    return k[0] in ('or', 'not', 'and')


# ---------------------------------------------------------------- one mailbox
async def mailbox_case(part, r, nqueries, backend_kind='dict'):
    from pymap.imap import IMAPServer
    be, config = await backends.make_dict(users=[('u', 'p', ())], bad_command_limit=None)
    srv = IMAPServer(be.login, config)
    a = wire.Client(srv)
    await a.start()
    await a.send(b'a LOGIN u p\r\n')
    msgs = [gen_message(r, k) for k in range(r.randint(3, 9))]
    # some messages arrive before SELECT (old), some after (recent for this session)
    n_old = r.randint(0, len(msgs))
    log = []
    for i, m in enumerate(msgs):
        if i == n_old:
            await a.send(b'a SELECT INBOX\r\n')       # claims \Recent of the first batch ...
            await a.send(b'a SELECT INBOX\r\n')       # ... and drops it with the selection (CLOSE would expunge)
        fl = l3.flag_list(m['flags'])
        out = await a.send(b'a APPEND INBOX ' + fl + b' "%02d-Feb-2020 %s" {%d+}\r\n' % (m['iday'], m['iclock'].encode(), len(m['raw'])) + m['raw'] + b'\r\n')
        m['uid'] = 101 + i
        m['seq'] = i + 1
        m['size'] = len(m['raw'])
        m['recent'] = i >= n_old
    if n_old >= len(msgs):
        await a.send(b'a SELECT INBOX\r\n')
        await a.send(b'a SELECT INBOX\r\n')
    await a.send(b'a NOOP\r\n')
    view = list(msgs)
    maxseq = len(view)
    maxuid = view[-1]['uid'] if view else 0
    model_lines = []
    pending = []
    for q in range(nqueries):
        keys = with_lookalikes(r, [gen_key(r, 3, maxseq, 100) for _ in range(r.randint(1, 3))])
        variants = [('plain', keys)]
        variants.append(('rewritten', [rewrite(r, k) for k in keys] if r.random() < 0.7 else list(reversed(keys))))
        results = {}
        for label, ks in variants:
            line = b' '.join(key_wire(k) for k in ks)
            for uidmode in (False, True):
                raw = await a.send((b'a UID SEARCH ' if uidmode else b'a SEARCH ') + line + b'\r\n')
                case = dict(messages=[dict(uid=m['uid'], flags=m['flags'], iday=m['iday'], iclock=m['iclock'], sday=m['sday'], size=m['size'], recent=m['recent'],
                                           raw=m['raw'].decode('ascii')) for m in view], query=line.decode('ascii'), uid=uidmode)
                try:
                    resps = imapresp.parse(raw)
                    tg = imapresp.tagged(resps, b'a')
                except imapresp.Malformed:
                    tg = None
                if tg is None or tg[1] != b'OK':
                    part.violation('monitor', f'{"UID " if uidmode else ""}SEARCH {line.decode()} answered {raw[:120]!r}', case, signature='search-refused')
                    results[(label, uidmode)] = None
                    continue
                ids = []
                for resp in imapresp.untagged(resps):
                    if imapresp.atom(resp[1]) == b'SEARCH':
                        ids = [int(t.val) for t in resp[2:]]
                got_uids = sorted(ids if uidmode else [view[i - 1]['uid'] for i in ids if 1 <= i <= len(view)])
                if not uidmode and any(not (1 <= i <= len(view)) for i in ids):
                    part.violation('monitor', f'SEARCH {line.decode()} returned a sequence number outside 1..{len(view)}: {ids}', case, signature='search-range')
                results[(label, uidmode)] = got_uids
                want = sorted(m['uid'] for m in view if all(ev(k, m, maxseq, maxuid) for k in ks))
                nt = 0 < len(want) < len(view) and any(structured(k) for k in ks)
                part.case(key=repr((case['messages'], line, uidmode)), nontrivial=nt, sample=dict(query=line.decode(), uid=uidmode, result=got_uids))
                part.trace()
                if got_uids != want:
                    part.violation('monitor', f'{"UID " if uidmode else ""}SEARCH {line.decode()} returned uids {got_uids}; RFC 3501 semantics over the stored messages give {want}',
                                   case, signature='search-semantics:' + first_leaf(ks))
                # model line
                sk = {}
                for k in ks:
                    string_keys(k, sk)
                mtoks = []
                for m in view:
                    fl = list(m['flags']) + ([9] if m['recent'] else [])
                    orc = [str(i) for (i, kk) in sk.values() if ev(kk, m, maxseq, maxuid)]
                    mtoks.append(f"{m['seq']},{m['uid']},{'.'.join(map(str, fl)) or '-'},{m['iday']},{m['sday'] if m['sday'] is not None else '-'},{m['size']},{'.'.join(orc) or '-'}")
                model_lines.append(f"search {maxseq} {maxuid} {';'.join(mtoks) or '-'} " + ' '.join(key_model(k, sk) for k in ks))
                pending.append((got_uids, case))
        a0, a1 = results.get(('plain', False)), results.get(('plain', True))
        if a0 is not None and a1 is not None and a0 != a1:
            part.violation('monitor', f'SEARCH and UID SEARCH disagree on {key_wire(keys[0]).decode()}...: {a0} vs {a1}', dict(query=repr(keys)), signature='search-uid-equiv')
        b0 = results.get(('rewritten', False))
        if a0 is not None and b0 is not None and a0 != b0:
            part.violation('monitor', f'logically equivalent programs return different sets: {[key_wire(k).decode() for k in keys]} -> {a0}; '
                           f'{[key_wire(k).decode() for k in variants[1][1]]} -> {b0}', dict(query=repr(keys), rewritten=repr(variants[1][1])), signature='search-algebra')
    # another connection expunges the messages that carry \\Deleted; this one is not told (a SEARCH by number must not be) and searches its unchanged view: the numbers
    # still name the same messages, and what the keys say about a message that is gone from the store is what they said before
    gone = [m for m in view if 3 in m['flags']]
    if gone and len(gone) < len(view) and r.random() < 0.7:
        b = wire.Client(srv)
        await b.start()
        await b.send(b'b LOGIN u p\r\n')
        await b.send(b'b SELECT INBOX\r\n')
        await b.send(b'b EXPUNGE\r\n')
        await b.eof()
        for q in range(max(3, nqueries // 2)):
            ks = [gen_key(r, 2, maxseq, 100) for _ in range(r.randint(1, 2))]
            line = b' '.join(key_wire(k) for k in ks)
            raw = await a.send(b'a SEARCH ' + line + b'\r\n')
            case = dict(scenario='hidden-expunged', messages=[dict(uid=m['uid'], flags=m['flags'], iday=m['iday'], iclock=m['iclock'], sday=m['sday'], size=m['size'], recent=m['recent'],
                                                                    raw=m['raw'].decode('ascii')) for m in view], expunged_by_another=[m['uid'] for m in gone], query=line.decode('ascii'), uid=False)
            if b' EXPUNGE\r\n' in raw:
                part.violation('monitor', f'SEARCH {line.decode()} (by number) was answered with an untagged EXPUNGE: {raw[:160]!r}', case, signature='search-sends-expunge')
                break
            mt = re.search(rb'^\* SEARCH((?: \d+)*)\r\n', raw, re.M)
            if b'a OK' not in raw:
                part.violation('monitor', f'SEARCH {line.decode()} on a view with hidden expunged messages answered {raw[:120]!r}', case, signature='search-refused')
                continue
            ids = [int(x) for x in mt.group(1).split()] if mt else []
            got_uids = sorted(view[i - 1]['uid'] for i in ids if 1 <= i <= len(view))
            want = sorted(m['uid'] for m in view if all(ev(k, m, maxseq, maxuid) for k in ks))
            part.stat('hidden-expunged-search')
            part.case(key=repr(('hidden', case['messages'], line)), nontrivial=0 < len(want) < len(view), sample=dict(query=line.decode(), hidden=case['expunged_by_another'], result=got_uids))
            if got_uids != want or any(not (1 <= i <= len(view)) for i in ids):
                part.violation('monitor', f'SEARCH {line.decode()} on a view in which uids {case["expunged_by_another"]} are expunged but not yet reported returned {ids} (uids {got_uids}); '
                               f'over the messages of the view RFC 3501 gives uids {want}', case, signature='search-hidden:' + first_leaf(ks))
    await a.eof()
    if model_lines:
        res = batch(model_lines)
        for line, out, (got, case) in zip(model_lines, res, pending):
            mod = sorted(int(x) for x in out.split(',') if x not in ('-', ''))
            if mod != got:
                part.violation('correspondence', f'SEARCH {case["query"]}: implementation uids {got}, Lean Search.search {mod}', dict(case, model_line=line[:400]),
                               signature='search-model')


def first_leaf(ks):
    k = ks[0]
    while k[0] in ('or', 'not', 'and') and len(k) > 1:
        k = k[1]
    return k[0] + (':' + str(k[1]) if k[0] in ('env', 'header') else '')


async def hidden_case(part, r):
    """a view that still contains messages expunged by another session (after a non-UID FETCH)"""
    prog = [['select', 0, 0, False], ['select', 1, 0, False]]
    n = r.randint(3, 6)
    for k in range(n):
        prog.append(['append', 0, 0, sorted(set(r.sample([0, 1, 2, 3, 4], r.randint(0, 2)) + ([3] if k % 2 else []))), k + 1, 0, 0])
    prog += [['noop', 0], ['noop', 1], ['expunge', 1, None], ['fetch', 0, False, '1:*', ['FLAGS']]]
    for _ in range(4):
        tests = [[r.randint(0, 4), r.random() < 0.5] for _ in range(r.randint(0, 2))]
        seqs = None if r.random() < 0.5 else r.choice(['1:*', '2:3', '*', '1,3'])
        prog.append(['search', 0, r.random() < 0.5, seqs, None, tests])
    prog.append(['noop', 0])
    prog.append(['search', 0, False, None, None, []])
    ext, outs, final = await l3.run_real(2, prog)
    l3.judge(part, [(2, ext, outs, final)], 'C13')


def worker(job):
    seed, nboxes, nq = job
    r = random.Random(seed)
    part = Part()
    for k in range(nboxes):
        with guarded(part, 'C13 mailbox', dict(seed=seed, k=k)):
            asyncio.run(mailbox_case(part, r, nq))
    for k in range(max(1, nboxes // 3)):
        with guarded(part, 'C13 hidden view', dict(seed=seed, k=k, scenario='hidden')):
            asyncio.run(hidden_case(part, r))
    return part.result()


def run(ctx):
    ctx.rep.rule = RULE
    ctx.rep.assumptions = ['generated messages are plain ASCII with one address per header token, so that "contains" needs no charset or RFC 2047 decoding (those are the email package\'s business)',
                           'dates carry random times of day and zone offsets (half of them within the offset of midnight); the expected day is the date as written (RFC 3501 6.4.4)',
                           'string-matching keys are oracle bits of the Lean model; the bits come from the independent evaluator']
    nw = ctx.workers
    ctx.pmap(worker, [(ctx.seed * 1000 + 600 + k, ctx.budget(6, 120), ctx.budget(10, 20)) for k in range(nw)])


def replay(case):
    case = case.get('case', case)
    print('query:', case.get('query'), 'uid mode:', case.get('uid'))
    for m in case.get('messages', []):
        print('  ', {k: v for k, v in m.items() if k != 'raw'})
        print('     ', m.get('raw', '')[:300].replace('\r\n', ' | '))
    print('re-run the check with the same VERIF_SEED to reproduce')
    return 0
