"""C05 — the connection state machine follows RFC 3501 section 3.   (C09 reuses this module with an auth-heavy alphabet.)

Tie: real `IMAPServer` connections (dict backend with the demo data: INBOX, Sent, read-only Trash; users testuser, bob, admin
root) vs the Lean `Conn` model (`gate`, `handle`, `count`, `step` — about which C05_gate, C05_state_only, C05_refused_noop,
C05_select, C05_close, C05_logout, C12_readonly_refuses, C09_* are proved).  Every concrete command is classified into the
model's `Cmd` with its backend outcome as oracle (credentials valid?, mailbox exists / read-only?) and the tagged result class
(OK / NO / BAD / BYE+OK / BYE+BAD) is diffed per command; at the end of every sequence the state is *probed* (LIST shows whose
mailboxes, FETCH 1 (RFC822.SIZE) shows which mailbox is selected, a silent STORE shows read-only) and compared with the
model's state.  Sequences: exhaustive up to a bounded length over the whole alphabet (every prefix is probed), random beyond.
Monitor for "a refused command has no effect": the sequence with all gate-refused commands removed must end in the same
observable state and the same data (STATUS of every mailbox of every user).
"""
from __future__ import annotations
import asyncio
import re
import base64
import itertools
import random
import ssl

from .common import wire, backends, imapresp
from .common.model import Model
from .common.report import Part, guarded

USERS = {'testuser': 1, 'bob': 2, 'root': 3, 'helper': 4}
PW = {'testuser': 'testpass', 'bob': 'pwbob', 'root': 'pwroot', 'helper': 'pwhelper'}
# mailboxes per user id: name -> (number, backend read-only)
BOXES = {1: {'INBOX': (0, False), 'Sent': (1, False), 'Trash': (2, True)}, 2: {'INBOX': (0, False), 'bobbox': (3, False)}, 3: {'INBOX': (0, False), 'rootbox': (4, False)}, 4: {'INBOX': (0, False), 'helperbox': (5, False)}}


def plain(authz, authc, pw):
    return base64.b64encode(f'{authz}\0{authc}\0{pw}'.encode())


# name -> (wire lines (list: first the command, then continuation answers), classifier(user) -> model token)
def _sel(name, examine):
    def f(user):
        b = BOXES.get(user, {}).get(name)
        return f"select:{b[0] if b else 9}:{int(examine)}:{'-' if b is None else int(b[1])}"
    return f


def _mbox_exists(name):
    return lambda user: f'mbox:{int(name in BOXES.get(user, {}))}'


MSG = b'A: b\r\n\r\nx\r\n'
ALPHABET = {
    'capability': ([b'CAPABILITY'], lambda u: 'cap'),
    'noop': ([b'NOOP'], lambda u: 'noop'),
    'id': ([b'ID NIL'], lambda u: 'id'),
    'logout': ([b'LOGOUT'], lambda u: 'logout'),
    'garbage': ([b'(('], lambda u: 'invalid'),
    'unknown': ([b'XYZZY 1'], lambda u: 'invalid'),
    'badargs': ([b'SELECT'], lambda u: 'invalid'),
    'starttls': ([b'STARTTLS'], lambda u: 'starttls'),
    'login-ok': ([b'LOGIN testuser testpass'], lambda u: 'login:1'),
    'login-bob': ([b'LOGIN bob pwbob'], lambda u: 'login:2'),
    'login-badpw': ([b'LOGIN testuser wrong'], lambda u: 'login:-'),
    'login-nouser': ([b'LOGIN nobody x'], lambda u: 'login:-'),
    'login-empty': ([b'LOGIN "" ""'], lambda u: 'login:-'),
    'login-locked-empty': ([b'LOGIN locked ""'], lambda u: 'login:-'),
    'login-locked-shy': ([b'LOGIN locked {2+}\r\n\xc2\xad'], lambda u: 'login:-'),
    'auth-plain-locked-empty': ([b'AUTHENTICATE PLAIN', plain('', 'locked', '')], lambda u: 'auth:1:1:-'),
    'auth-login-locked-empty': ([b'AUTHENTICATE LOGIN', base64.b64encode(b'locked'), b''], lambda u: 'auth:1:1:-'),
    'auth-plain-ok': ([b'AUTHENTICATE PLAIN', plain('', 'testuser', 'testpass')], lambda u: 'auth:1:1:1'),
    'auth-plain-badpw': ([b'AUTHENTICATE PLAIN', plain('', 'testuser', 'nope')], lambda u: 'auth:1:1:-'),
    'auth-plain-admin-as-bob': ([b'AUTHENTICATE PLAIN', plain('bob', 'root', 'pwroot')], lambda u: 'auth:1:1:2'),
    'auth-plain-user-as-bob': ([b'AUTHENTICATE PLAIN', plain('bob', 'testuser', 'testpass')], lambda u: 'auth:1:1:-'),
    # a user who holds a role, but not the admin role, may not act as somebody else
    'auth-plain-helper-as-bob': ([b'AUTHENTICATE PLAIN', plain('bob', 'helper', 'pwhelper')], lambda u: 'auth:1:1:-'),
    'auth-plain-helper-as-root': ([b'AUTHENTICATE PLAIN', plain('root', 'helper', 'pwhelper')], lambda u: 'auth:1:1:-'),
    'auth-plain-helper': ([b'AUTHENTICATE PLAIN', plain('helper', 'helper', 'pwhelper')], lambda u: 'auth:1:1:4'),
    'auth-plain-admin-as-nobody': ([b'AUTHENTICATE PLAIN', plain('ghost', 'root', 'pwroot')], lambda u: 'auth:1:1:-'),
    'auth-cancel': ([b'AUTHENTICATE PLAIN', b'*'], lambda u: 'auth:1:0:-'),
    'auth-badb64': ([b'AUTHENTICATE PLAIN', b'!!!notbase64'], lambda u: 'auth:1:0:-'),
    'auth-badpad': ([b'AUTHENTICATE PLAIN', b'A'], lambda u: 'auth:1:0:-'),
    'auth-short': ([b'AUTHENTICATE PLAIN', base64.b64encode(b'onlyonefield')], lambda u: 'auth:1:0:-'),
    'auth-bogus-mech': ([b'AUTHENTICATE BOGUS'], lambda u: 'auth:0:0:-'),
    'auth-login-ok': ([b'AUTHENTICATE LOGIN', base64.b64encode(b'bob'), base64.b64encode(b'pwbob')], lambda u: 'auth:1:1:2'),
    'select-inbox': ([b'SELECT INBOX'], _sel('INBOX', False)),
    'examine-inbox': ([b'EXAMINE INBOX'], _sel('INBOX', True)),
    'select-sent': ([b'SELECT Sent'], _sel('Sent', False)),
    'select-trash': ([b'SELECT Trash'], _sel('Trash', False)),
    'select-missing': ([b'SELECT nobox'], _sel('nobox', False)),
    'examine-missing': ([b'EXAMINE nobox'], _sel('nobox', True)),
    'list': ([b'LIST "" *'], lambda u: 'mbox:1'),
    'lsub': ([b'LSUB "" *'], lambda u: 'mbox:1'),
    'status-inbox': ([b'STATUS INBOX (MESSAGES)'], lambda u: 'mbox:1'),
    'status-missing': ([b'STATUS nobox (MESSAGES)'], lambda u: 'mbox:0'),
    'create-inbox': ([b'CREATE INBOX'], lambda u: 'inboxguard'),
    'delete-inbox': ([b'DELETE inbox'], lambda u: 'inboxguard'),
    'rename-to-inbox': ([b'RENAME Sent InBox'], lambda u: 'inboxguard'),
    'delete-missing': ([b'DELETE nobox'], lambda u: 'mbox:0'),
    'rename-missing': ([b'RENAME nobox other'], lambda u: 'mbox:0'),
    'subscribe': ([b'SUBSCRIBE INBOX'], lambda u: 'mbox:1'),
    'append-sent': ([b'APPEND Sent {%d+}\r\n' % len(MSG) + MSG], _mbox_exists('Sent')),
    'append-trash': ([b'APPEND Trash {%d+}\r\n' % len(MSG) + MSG], lambda u: 'mbox:0'),
    'check': ([b'CHECK'], lambda u: 'check'),
    'close': ([b'CLOSE'], lambda u: 'close'),
    'fetch': ([b'FETCH 1 (FLAGS)'], lambda u: 'msg:0:1'),
    'uid-fetch': ([b'UID FETCH 1:* (FLAGS)'], lambda u: 'msg:0:1'),
    'fetch-none': ([b'FETCH 99 (FLAGS)'], lambda u: 'msg:0:1'),
    'search': ([b'SEARCH ALL'], lambda u: 'msg:0:1'),
    'store': ([b'STORE 1 +FLAGS (\\Seen)'], lambda u: 'msg:1:1'),
    'expunge': ([b'EXPUNGE'], lambda u: 'msg:1:1'),
    'copy': ([b'COPY 1 INBOX'], lambda u: 'msg:0:1'),
    'copy-missing': ([b'COPY 1 nobox'], lambda u: 'msg:0:0'),
    'move-missing': ([b'MOVE 1 nobox'], lambda u: 'msg:1:0'),
    'idle-done': ([b'IDLE', b'DONE'], lambda u: 'idle:1'),
    'idle-junk': ([b'IDLE', b'junk'], lambda u: 'idle:0'),
}
CORE = ['capability', 'noop', 'logout', 'garbage', 'starttls', 'login-ok', 'login-badpw', 'auth-plain-ok', 'auth-cancel', 'auth-bogus-mech',
        'select-inbox', 'examine-inbox', 'select-trash', 'select-missing', 'list', 'status-missing', 'append-sent', 'check', 'close', 'fetch', 'store',
        'expunge', 'copy', 'move-missing', 'idle-done', 'idle-junk']
CONFIGS = [(False, True), (True, True), (True, False)]      # (tls enabled, peer is local)


async def make_server(tls, subsystem=None):
    from pymap.imap import IMAPServer
    kw = dict(demo_data=True, users=[('bob', 'pwbob', ()), ('root', 'pwroot', ('admin',)), ('helper', 'pwhelper', ('support',)),
                                    # an existing account without a stored secret: no credentials verify against it, the empty password included
                                    ('locked', None, ())], tls_enabled=tls)
    if tls:
        kw['ssl_context'] = ssl.create_default_context(ssl.Purpose.CLIENT_AUTH)
    backend, config = await backends.make_dict(**kw)
    srv = IMAPServer(backend.login, config)
    # bob's and root's extra mailboxes
    for u, box in (('bob', 'bobbox'), ('root', 'rootbox'), ('helper', 'helperbox')):
        c = wire.Client(srv, sock_info=None)
        await c.start()
        if tls:
            pass            # local peer: mechanisms are on offer
        await c.send(b'a LOGIN %s %s\r\n' % (u.encode(), PW[u].encode()))
        await c.send(b'a CREATE %s\r\n' % box.encode())
        await c.send(b'a LOGOUT\r\n')
        await c.finish()
    return srv, config


def classify(raw, closed):
    """-> 'OK' | 'NO' | 'BAD' | 'BYE+OK' | 'BYE+BAD' | 'BYE' | '?'  (+ whether the output parsed)"""
    try:
        resps = imapresp.parse(raw)
    except imapresp.Malformed:
        return 'MALFORMED'
    bye = any(len(r) > 1 and imapresp.atom(r[0]) == b'*' and imapresp.atom(r[1]) == b'BYE' for r in resps)
    tg = imapresp.tagged(resps, b't')
    if tg is None:
        return 'BYE' if bye else '?'
    return ('BYE+' if bye else '') + tg[1].decode()


async def run_sequence(srv, names, local, probe=True):
    """returns (list of result classes, final observation)"""
    from proxyprotocol.sock import SocketInfoLocal
    c = wire.Client(srv)
    if not local:
        c.pipe.peer = ('8.8.8.8', 4321)
        c._sock_info = SocketInfoLocal(c.pipe)
    greeting = await c.start()
    out = []
    issues = []

    def advertised(raw, cur):
        # the capabilities the client was last told: greeting / response codes / CAPABILITY answers
        found = re.findall(rb'\[CAPABILITY ([^\]]*)\]', raw) + re.findall(rb'^\* CAPABILITY ([^\r]*)', raw, re.M)
        return set(found[-1].upper().split()) if found else cur
    adv = advertised(greeting if isinstance(greeting, (bytes, bytearray)) else b'', None)
    for name in names:
        lines, _ = ALPHABET[name]
        if c.task.done():
            out.append('CLOSED')
            continue
        tls_before = bool(getattr(c.pipe, 'tls', False))
        raw = await c.send(b't ' + lines[0] + b'\r\n')
        opened = raw.rstrip(b'\r\n').split(b'\r\n')[-1].startswith(b'+') if raw else False
        for cont in lines[1:]:
            if c.task.done() or _tagged_safe(raw, b't'):
                break
            last = raw.rstrip(b'\r\n').split(b'\r\n')[-1]
            if not last.startswith(b'+'):
                break
            raw += await c.send(cont + b'\r\n')
        res = classify(raw, c.task.done())
        out.append(res)
        word = lines[0].split(b' ')[0].upper()
        # what the server accepts must be what it last advertised
        if adv is not None:
            if word == b'LOGIN' and res == 'OK' and b'LOGINDISABLED' in adv:
                issues.append(f'{name}: LOGIN was accepted although the capabilities last advertised say LOGINDISABLED ({sorted(adv)})')
            if word == b'AUTHENTICATE' and (opened or res == 'OK'):
                mech = lines[0].split(b' ')[1].upper()
                if b'AUTH=' + mech not in adv:
                    issues.append(f'{name}: an AUTHENTICATE {mech.decode()} exchange was opened although AUTH={mech.decode()} is not among the capabilities last advertised ({sorted(adv)})')
        tls_after = bool(getattr(c.pipe, 'tls', False))
        if tls_after and not tls_before and not (word == b'STARTTLS' and res == 'OK'):
            issues.append(f'{name}: the server started a TLS handshake on the transport although the command was answered {res}')
        if word == b'STARTTLS' and res == 'OK' and not tls_after:
            issues.append(f'{name}: STARTTLS was answered OK but no TLS handshake was started')
        if word == b'STARTTLS' and res == 'OK':
            adv = None          # RFC 3501 6.2.1: the client discards what it knew
        adv = advertised(raw, adv)
    obs = None
    if probe:
        obs = await observe(c)
    await c.eof()
    return out, obs, issues, (None if adv is None else b'LOGINDISABLED' in adv)


async def observe(c):
    """(user's mailbox names or None, size of message 1 of the selected mailbox or None, read-only or None, closed)"""
    if c.task.done():
        return ('closed',)
    raw = await c.send(b'p LIST "" *\r\n')
    names = None
    try:
        resps = imapresp.parse(raw)
        if imapresp.tagged(resps, b'p')[1] == b'OK':
            names = tuple(sorted(imapresp.atom(r[-1]) or b'?' for r in imapresp.untagged(resps) if imapresp.atom(r[1]) == b'LIST'))
    except Exception:
        names = ('?',)
    size = None
    ro = None
    if not c.task.done():
        raw = await c.send(b'p FETCH 1 (RFC822.SIZE)\r\n')
        try:
            resps = imapresp.parse(raw)
            if imapresp.tagged(resps, b'p')[1] == b'OK':
                size = -1
                for r in resps:
                    f = imapresp.fetch_items(r)
                    if f:
                        size = int(f[1][b'RFC822.SIZE'].val)
                raw = await c.send(b'p STORE 1 +FLAGS.SILENT (\\Flagged)\r\n')
                ro = imapresp.tagged(imapresp.parse(raw), b'p')[1] == b'NO'
        except Exception:
            size = '?'
    return (names, size, ro)


def _tagged_safe(raw, tag):
    try:
        return imapresp.tagged(imapresp.parse(raw), tag) is not None
    except imapresp.Malformed:
        return False


imapresp.tagged_safe = _tagged_safe


async def data_dump(srv):
    """what every user's store looks like (STATUS of every mailbox, LIST, LSUB)"""
    out = []
    for u in USERS:
        c = wire.Client(srv)
        await c.start()
        await c.send(b'a LOGIN %s %s\r\n' % (u.encode(), PW[u].encode()))
        raw = await c.send(b'a LIST "" *\r\n')
        out.append(raw)
        out.append(await c.send(b'a LSUB "" *\r\n'))
        for name in BOXES[USERS[u]]:
            st = await c.send(b'a STATUS %s (MESSAGES UIDNEXT UNSEEN)\r\n' % name.encode())
            out.append(st)
            await c.send(b'a EXAMINE %s\r\n' % name.encode())
            out.append(await c.send(b'a FETCH 1:* (UID FLAGS)\r\n'))
        await c.send(b'a LOGOUT\r\n')
        await c.finish()
    return tuple(out)


def model_run(m, names, tls, local):
    """-> (list of (class, state)) ; the classifier uses the model's own current user"""
    m.ask(f'conn reset {int(tls and not local)} {int(tls)}')
    user = None
    mech = not (tls and not local)
    res = []
    for name in names:
        tok = ALPHABET[name][1](user)
        if tok.startswith('auth:1:') and not mech:
            tok = 'auth:0:0:-'              # no SASL mechanism is on offer before STARTTLS from a remote peer
        r = m.ask('conn step ' + tok).split()
        res.append((r[0], r[1], r[2], r[3], tok, r[5] if len(r) > 5 else None))
        user = None if r[1] == '-' else int(r[1])
        mech = r[4] == 'mech'
    return res


def expected_obs(state, sizes):
    user, sel, closed = state
    if closed == 'closed':
        return ('closed',)
    if user == '-':
        return (None, None, None)
    u = int(user)
    names = tuple(sorted(n.encode() for n in BOXES[u]))
    if sel == '-':
        return (names, None, None)
    box, ro = sel.split(':')
    return (names, sizes.get((u, int(box)), -1), ro == '1')


async def sizes_of(srv):
    sizes = {}
    for u, uid in USERS.items():
        c = wire.Client(srv)
        await c.start()
        await c.send(b'a LOGIN %s %s\r\n' % (u.encode(), PW[u].encode()))
        for name, (num, ro) in BOXES[uid].items():
            await c.send(b'a EXAMINE %s\r\n' % name.encode())
            raw = await c.send(b'a FETCH 1 (RFC822.SIZE)\r\n')
            size = -1
            for r in imapresp.parse(raw):
                f = imapresp.fetch_items(r)
                if f:
                    size = int(f[1][b'RFC822.SIZE'].val)
            sizes[(uid, num)] = size
        await c.send(b'a LOGOUT\r\n')
        await c.finish()
    return sizes


async def run_batch(part, seqs, prop, refused_check=True):
    m = Model()
    try:
        for (tls, local), names in seqs:
            case = dict(tls=tls, local=local, sequence=list(names))
            srv, config = await make_server(tls)
            sizes = await sizes_of(srv)
            real, obs, issues, adv_real = await run_sequence(srv, names, local)
            for issue in issues:
                part.violation('monitor', f'{prop}: config tls={tls} local={local}: {issue}; sequence {list(names)}', case, signature='advertised-vs-accepted')
            mod = model_run(m, names, tls, local)
            part.case(key=repr((tls, local, names)), nontrivial=len(set(names)) > 1 or len(names) == 1,
                      sample=dict(tls=tls, local=local, sequence=list(names), results=real))
            part.trace()
            ok = True
            # the capability list the client holds at the end: LOGINDISABLED in it or not (model: Conn.Wire.adv, about which
            # C09_advertised_enforced is proved) — compared when the connection is still open and the client did not end on garbage
            if mod and mod[-1][5] is not None and mod[-1][3] == 'open' and 'CLOSED' not in real and 'MALFORMED' not in real:
                adv_model = {'adv=1': True, 'adv=0': False, 'adv=-': None}.get(mod[-1][5])
                part.stat('advertised-compared')
                if adv_model != adv_real:
                    ok = False
                    part.violation('correspondence', f'{prop}: config tls={tls} local={local}: after {list(names)} the client holds LOGINDISABLED={adv_real}, '
                                   f'the Wire model says {adv_model}', case, signature='conn-advertised')
            for j, (r, mm) in enumerate(zip(real, mod)):
                part.stat('class:' + r)
                want = mm[0] if mm[3] == 'open' or mm[0].startswith('BYE') else mm[0]
                if r == 'CLOSED':
                    # the model keeps answering BAD on a closed connection; the real one is gone: fine if the model says closed
                    if j > 0 and mod[j - 1][3] == 'closed':
                        continue
                if r != want:
                    ok = False
                    sig = 'conn-class'
                    part.violation('correspondence', f'{prop}: config tls={tls} local={local}: command #{j} {names[j]} ({mm[4]}): implementation {r}, model {want}; '
                                   f'sequence {list(names)}', dict(case, at=j), signature=sig)
                    # failing-input search: is this itself against the property's text?
                    if r == 'MALFORMED':
                        pass
                    elif mm[4].startswith(('login', 'auth')) and r in ('OK',) and want != 'OK':
                        part.violation('monitor', f'{prop}: {names[j]} succeeded although the model (invalid credentials / already authenticated / mechanism not offered) refuses it; '
                                       f'sequence {list(names)}', dict(case, at=j), signature='auth-accepted')
                    break
            if ok:
                exp = expected_obs(mod[-1][1:4] if mod else ('-', '-', 'open'), sizes)
                if obs != exp:
                    part.violation('correspondence', f'{prop}: config tls={tls} local={local}: after {list(names)} the connection is observed as {obs}, the model state '
                                   f'{mod[-1][1:4] if mod else None} predicts {exp}', case, signature='conn-state')
            # the property's own statement about SELECT/EXAMINE, CLOSE and LOGOUT, judged on the real answers alone
            if names and real and obs is not None and obs != ('closed',):
                lastn, lastr = names[-1], real[-1]
                if lastn.startswith(('select-', 'examine-')):
                    if lastr == 'NO' and obs[1] is not None:
                        part.violation('monitor', f'{prop}: {lastn} failed with NO but a mailbox is still selected afterwards (first message has {obs[1]} octets, read-only={obs[2]}); '
                                       f'sequence {list(names)}', case, signature='failed-select-keeps-selection')
                    if lastr == 'OK':
                        boxname = lastn.split('-', 1)[1]
                        want_name = {'inbox': 'INBOX', 'sent': 'Sent', 'trash': 'Trash'}.get(boxname)
                        u = mod[-1][1] if mod else '-'
                        if want_name and u != '-':
                            b = BOXES[int(u)].get(want_name)
                            if b and (obs[1] != sizes.get((int(u), b[0]), -1) or obs[2] != (lastn.startswith('examine') or b[1])):
                                part.violation('monitor', f'{prop}: {lastn} answered OK but the selected mailbox is observed as (first message {obs[1]} octets, read-only={obs[2]}), '
                                               f'expected {want_name} ({sizes.get((int(u), b[0]))} octets, read-only={lastn.startswith("examine") or b[1]}); sequence {list(names)}', case,
                                               signature='select-selects-other')
                if lastn == 'close' and lastr == 'OK' and obs[1] is not None:
                    part.violation('monitor', f'{prop}: CLOSE answered OK but a mailbox is still selected; sequence {list(names)}', case, signature='close-keeps-selection')
            if names and real and real[-1] not in ('CLOSED',) and names[-1] == 'logout' and real[-1] != 'BYE+OK':
                part.violation('monitor', f'{prop}: LOGOUT answered {real[-1]}, not BYE then OK; sequence {list(names)}', case, signature='logout')
            # refused commands have no effect
            if refused_check and ok and len(names) <= 6 and mod and mod[-1][3] == 'open':
                refused = [j for j, mm in enumerate(mod) if mm[0] == 'BAD' and not mm[4].startswith(('invalid', 'auth', 'idle'))]
                if refused:
                    reduced = tuple(n for j, n in enumerate(names) if j not in refused)
                    d1 = await data_dump(srv)
                    srv2, _ = await make_server(tls)
                    real2, obs2, _, _ = await run_sequence(srv2, reduced, local)
                    d2 = await data_dump(srv2)
                    part.stat('refused-noop-checked')
                    if obs2 != obs or d1 != d2:
                        part.violation('monitor', f'{prop}: the refused commands at {refused} of {list(names)} had an effect: with them the end state is {obs}, without them {obs2}'
                                       + ('' if d1 == d2 else '; the stored data differ'), case, signature='refused-had-effect')
    finally:
        m.close()


async def vanished_selection(part, prop, backend):
    """the selected mailbox is deleted or renamed away by another connection: CLOSE still succeeds and deselects, and the connection can go on"""
    from pymap.imap import IMAPServer
    base = None
    if backend == 'dict':
        be, config = await backends.make_dict(users=[('bob', 'pwbob', ())], bad_command_limit=None)
        login = be.login
    else:
        base = backends.scratch_dir('pymap-verif-c05-')
        config, login = await backends.make_maildir(base, users=[('bob', 'pwbob', ())], bad_command_limit=None)
    try:
        srv = IMAPServer(login, config)
        n_ = 0
        for how in (b'DELETE gone', b'RENAME gone elsewhere',
                    # the mailbox stays, its messages change behind the selecting connection's back: CLOSE has to cope with a stale view
                    b'SELECT gone|STORE 1 +FLAGS (\\Deleted)|EXPUNGE', b'SELECT gone|STORE 1:* +FLAGS (\\Deleted)|CLOSE', b'SELECT gone|STORE 2 +FLAGS (\\Deleted)|EXPUNGE|APPEND gone {1+}\r\nx',
                    b'APPEND gone (\\Deleted) {1+}\r\nx', b'SELECT gone|MOVE 1 INBOX', b'SELECT gone|MOVE 2:3 INBOX', b'SELECT gone|STORE 1 +FLAGS (\\Deleted)|EXPUNGE|CHECK',
                    b'RENAME gone elsewhere|CREATE gone', b'DELETE gone|CREATE gone|APPEND gone {1+}\r\nx'):
            # every variant in a mailbox of its own: what an earlier variant left behind (a deleted and re-created name, say) is not part of this one
            n_ += 1
            how = how.replace(b'gone', b'gone%d' % n_).replace(b'elsewhere', b'elsewhere%d' % n_)
            gone = b'gone%d' % n_
            a, b = wire.Client(srv), wire.Client(srv)
            await a.start()
            await b.start()
            await a.send(b'a LOGIN bob pwbob\r\n')
            await b.send(b'b LOGIN bob pwbob\r\n')
            await a.send(b'a CREATE %s\r\n' % gone)
            for k in range(3):
                await a.send(b'a APPEND %s (\\Deleted) {2+}\r\nm%d\r\n' % (gone, k))
            raw = await a.send(b'a SELECT %s\r\n' % gone)
            case = dict(scenario='vanished-selection', backend=backend, how=how.decode())
            part.case(key=f'vanished:{backend}:{how.decode().replace(gone.decode(), "gone")}', nontrivial=True)
            if b'a OK' not in raw:
                continue
            for step in how.split(b'|'):
                await b.send(b'b ' + step + b'\r\n')
            stays = b'|' in how or how.startswith(b'APPEND')
            out = []
            for line in (b'CLOSE', b'CLOSE', b'NOOP', b'SELECT INBOX'):
                if a.task.done():
                    out.append(b'<closed>')
                    break
                out.append((await a.send(b'a ' + line + b'\r\n'))[-60:])
            ok = [b'a OK' in out[0] or (b'BYE' in out[0] and b'SERVERBUG' not in out[0] and not stays)]       # a BYE that says the mailbox is gone, not an internal error
            if b'BYE' not in out[0] or b'SERVERBUG' in out[0]:
                ok += [len(out) > 1 and out[1].startswith(b'a BAD'), len(out) > 2 and b'a OK' in out[2], len(out) > 3 and b'a OK' in out[3]]
            if not all(ok):
                part.violation('monitor', f'{prop}: {backend}: after `{how.decode()}` by another connection, CLOSE / CLOSE / NOOP / SELECT INBOX on the connection that had the mailbox '
                               f'selected answered {out!r}; expected OK (deselected), BAD (nothing selected), OK, OK', case,
                               signature='reselected-by-name' if b'CREATE ' + gone in how else 'vanished-selection')
            await a.eof()
            await b.eof()
    finally:
        if base:
            backends.rmtree(base)


def worker(job):
    seed, seqs, prop, refused = job
    part = Part()
    with guarded(part, f'{prop} connection sequences', dict(seed=seed)):
        asyncio.run(run_batch(part, seqs, prop, refused))
    return part.result()


def vanished_worker(job):
    prop, = job
    part = Part()
    for backend in ('dict', 'maildir'):
        with guarded(part, f'{prop} vanished selection', dict(scenario='vanished-selection', backend=backend)):
            asyncio.run(vanished_selection(part, prop, backend))
    return part.result()


def sequences(ctx, alphabet_core, alphabet_all, seed):
    r = random.Random(seed)
    seqs = []
    # exhaustive short sequences
    for cfg in CONFIGS:
        for n in alphabet_all:
            seqs.append((cfg, (n,)))
    for cfg in CONFIGS[:ctx.budget(1, 3)]:
        for a, b in itertools.product(alphabet_core, repeat=2):
            seqs.append((cfg, (a, b)))
    exhaustive = len(seqs)
    if not ctx.quick:
        for t in itertools.product(alphabet_core, repeat=3):
            seqs.append((CONFIGS[0], t))
        exhaustive = len(seqs)
    # state-directed: reach authenticated / selected states first, then everything
    pre = [('login-ok',), ('login-ok', 'select-inbox'), ('login-ok', 'examine-inbox'), ('login-ok', 'select-trash'), ('auth-plain-ok', 'select-sent'),
           ('login-bob',), ('auth-plain-admin-as-bob', 'select-inbox'), ('starttls', 'login-ok'), ('starttls',)]
    for cfg in CONFIGS:
        for p in pre:
            for a in alphabet_all:
                seqs.append((cfg, p + (a,)))
            for _ in range(ctx.budget(6, 60)):
                seqs.append((cfg, p + tuple(r.choice(alphabet_core) for _ in range(2))))
    for _ in range(ctx.budget(150, 3000)):
        seqs.append((r.choice(CONFIGS), tuple(r.choice(alphabet_all) for _ in range(r.randint(3, 14)))))
    # the bad-command limit
    for cfg in CONFIGS[:1]:
        seqs.append((cfg, ('garbage',) * 5 + ('noop',)))
        seqs.append((cfg, ('garbage',) * 4 + ('noop', 'garbage', 'garbage')))
        seqs.append((cfg, ('login-ok',) + ('check',) * 5))
        seqs.append((cfg, ('list',) * 4 + ('login-ok', 'list', 'garbage')))
    return seqs, exhaustive


RULE = ('command sequences over a 50-entry alphabet (every built-in command, valid and invalid arguments, existing/missing/read-only mailboxes, valid/invalid/cancelled/malformed '
        'credentials) in three configurations (no TLS; TLS + local peer; TLS + remote peer): all sequences of length 1 over the full alphabet and of length 2 (thorough: 3) over a '
        '26-entry core, every one ending in state probes; state-directed and random sequences up to length 14; non-trivial = at least two different commands; distinct by sequence')


def run(ctx, prop='C05', core=None, alpha=None):
    ctx.rep.rule = RULE
    ctx.rep.assumptions = ['backend outcomes (credentials valid, mailbox exists / read-only) are oracle inputs of the model, supplied by the harness from the fixed test fixture',
                           'TLS itself is a stub (the stream object accepts start_tls); only the state machine around STARTTLS is exercised']
    seqs, exhaustive = sequences(ctx, core or CORE, alpha or list(ALPHABET), ctx.seed)
    ctx.rep.extra['exhaustive_prefix'] = f'the first {exhaustive} sequences enumerate all sequences of length 1 (full alphabet, 3 configurations) and length 2' + \
        ('' if ctx.quick else ' and 3') + ' (core alphabet)'
    nw = ctx.workers
    chunks = [seqs[k::nw * 2] for k in range(nw * 2)]
    ctx.pmap(worker, [(ctx.seed, ch, prop, True) for ch in chunks if ch])
    if prop == 'C05':
        ctx.pmap(vanished_worker, [(prop,)])


def replay(case):
    part = Part()
    case = case.get('case', case)
    seqs = [((case['tls'], case['local']), tuple(case['sequence']))]
    asyncio.run(run_batch(part, seqs, 'C05'))
    res = part.result()
    for v in res['violations']:
        print(f"[{v['kind']}] {v['what']}")
    print('reproduced' if res['violations'] else 'not reproduced')
    return 1 if res['violations'] else 0
