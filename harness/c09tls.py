"""C09/C05 over real sockets and a real TLS handshake: nothing a client sent in clear text is acted on after STARTTLS.

Everything else in C05/C09 drives the server through in-process pipes with a simulated handshake; the one thing that cannot
show is what the *stream* does across `start_tls`: bytes that arrived in clear text before the handshake stay in the
`StreamReader` buffer and would be parsed as commands of the protected session (the STARTTLS command-injection class of
defect, CVE-2011-0411).  Here the real `IMAPServer` / `ManageSieveServer` listen on a loopback socket with a throwaway
certificate (`harness/data/test-*.pem`); the client writes STARTTLS and further commands in ONE clear-text segment, performs
the handshake, and watches what comes back inside TLS.

Monitor: after the handshake the connection is either closed, or silent until the client speaks; no tagged completion of a
command that travelled in clear text ever arrives inside TLS; a LOGIN sent in clear text while LOGINDISABLED was advertised
never authenticates (a mailbox command afterwards is refused); a command sent inside TLS afterwards is answered normally.
"""
from __future__ import annotations
import asyncio
import os
import random
import socket
import ssl
import time

from . import c05
from .common import backends
from .common.report import Part, guarded

DATA = os.path.join(os.path.dirname(os.path.abspath(__file__)), 'data')

INJECT_IMAP = [b'b LOGIN testuser testpass\r\n', b'b LOGIN testuser testpass\r\nc LIST "" *\r\n', b'b NOOP\r\n', b'b CAPABILITY\r\n',
               b'b AUTHENTICATE PLAIN AHRlc3R1c2VyAHRlc3RwYXNz\r\n', b'b LOGOUT\r\n', b'b LOGIN {8+}\r\ntestuser {8+}\r\ntestpass\r\n', b'b LOG']
INJECT_SIEVE = [b'AUTHENTICATE "PLAIN" "AGFsaWNlAHB3YWxpY2U="\r\n', b'AUTHENTICATE "PLAIN" "AGFsaWNlAHB3YWxpY2U="\r\nLISTSCRIPTS\r\n', b'NOOP "inj"\r\n', b'CAPABILITY\r\n', b'LOGOUT\r\n', b'NOO']


def server_ctx():
    ctx = ssl.create_default_context(ssl.Purpose.CLIENT_AUTH)
    ctx.load_cert_chain(os.path.join(DATA, 'test-cert.pem'), os.path.join(DATA, 'test-key.pem'))
    return ctx


def client_ctx():
    ctx = ssl.create_default_context()
    ctx.check_hostname = False
    ctx.verify_mode = ssl.CERT_NONE
    return ctx


def recv_some(s, wait):
    """what arrives within `wait` seconds (b'' if nothing; None if the peer closed)"""
    s.settimeout(wait)
    out = b''
    try:
        while True:
            d = s.recv(65536)
            if not d:
                return out if out else None
            out += d
            s.settimeout(0.15)
    except (socket.timeout, ssl.SSLWantReadError, TimeoutError):
        return out
    except (ConnectionError, ssl.SSLError, OSError):
        return out if out else None


def client_imap(port, inject, split):
    log = []
    s = socket.create_connection(('127.0.0.1', port))
    s.setsockopt(socket.IPPROTO_TCP, socket.TCP_NODELAY, 1)
    s.sendall(b'PROXY TCP4 1.2.3.4 5.6.7.8 1234 143\r\n')          # a remote peer: the TLS requirement applies
    greeting = recv_some(s, 10.0) or b''
    log.append(['greeting', greeting[:120].decode('latin1')])
    if split:
        s.sendall(b'a STARTTLS\r\n')
        first = recv_some(s, 10.0) or b''
        s.sendall(inject)          # clear text after the OK, before the handshake
        time.sleep(0.1)
    else:
        s.sendall(b'a STARTTLS\r\n' + inject)
        first = recv_some(s, 10.0) or b''
    log.append(['clear', first[:200].decode('latin1')])
    if b'a OK' not in first:
        s.close()
        return dict(log=log, starttls_ok=False, greeting=greeting)
    clear_extra = first.split(b'a OK', 1)[1].split(b'\r\n', 1)[1] if b'\r\n' in first.split(b'a OK', 1)[1] else b''
    try:
        t = client_ctx().wrap_socket(s)
    except (ssl.SSLError, OSError) as exc:
        log.append(['handshake', repr(exc)[:100]])
        return dict(log=log, starttls_ok=True, handshake=False, greeting=greeting, clear_extra=clear_extra)
    unsolicited = recv_some(t, 0.5)
    log.append(['tls-unsolicited', None if unsolicited is None else unsolicited[:200].decode('latin1')])
    after = None
    if unsolicited is not None:
        try:
            t.sendall(b'z LIST "" *\r\n')
            after = recv_some(t, 10.0)
        except (OSError, ssl.SSLError):
            after = None
        log.append(['tls-list', None if after is None else after[:200].decode('latin1')])
    try:
        t.close()
    except OSError:
        pass
    return dict(log=log, starttls_ok=True, handshake=True, greeting=greeting, clear_extra=clear_extra, unsolicited=unsolicited, after=after)


def client_sieve(port, inject, split):
    log = []
    s = socket.create_connection(('127.0.0.1', port))
    s.setsockopt(socket.IPPROTO_TCP, socket.TCP_NODELAY, 1)
    greeting = recv_some(s, 10.0) or b''
    log.append(['greeting', greeting[-80:].decode('latin1')])
    if split:
        s.sendall(b'STARTTLS\r\n')
        first = recv_some(s, 10.0) or b''
        s.sendall(inject)
        time.sleep(0.1)
    else:
        s.sendall(b'STARTTLS\r\n' + inject)
        first = recv_some(s, 10.0) or b''
    log.append(['clear', first[:200].decode('latin1')])
    if not first.startswith(b'OK'):
        s.close()
        return dict(log=log, starttls_ok=False, greeting=greeting)
    clear_extra = first.split(b'\r\n', 1)[1] if b'\r\n' in first else b''
    try:
        t = client_ctx().wrap_socket(s)
    except (ssl.SSLError, OSError) as exc:
        log.append(['handshake', repr(exc)[:100]])
        return dict(log=log, starttls_ok=True, handshake=False, greeting=greeting, clear_extra=clear_extra)
    # RFC 5804: the server re-issues its capabilities after the handshake; anything beyond that one block is unsolicited
    unsolicited = recv_some(t, 0.6)
    log.append(['tls-unsolicited', None if unsolicited is None else unsolicited[-200:].decode('latin1')])
    after = None
    if unsolicited is not None:
        try:
            t.sendall(b'LISTSCRIPTS\r\n')
            after = recv_some(t, 3.0)
        except (OSError, ssl.SSLError):
            after = None
        log.append(['tls-listscripts', None if after is None else after[:200].decode('latin1')])
    try:
        t.close()
    except OSError:
        pass
    return dict(log=log, starttls_ok=True, handshake=True, greeting=greeting, clear_extra=clear_extra, unsolicited=unsolicited, after=after)


async def tls_case(part, r, key):
    from pymap.imap import IMAPServer
    from pymap.sieve.manage import ManageSieveServer
    from proxyprotocol.reader import ProxyProtocolReader
    from proxyprotocol.version import ProxyProtocolVersion
    which = r.choice(['imap', 'imap', 'sieve'])
    try:
        probe = socket.socket()
        probe.bind(('127.0.0.1', 0))
        probe.close()
        server_ctx()
    except (OSError, ssl.SSLError) as exc:
        # no loopback interface or no key pair: this leg cannot run here (everything else in C09 still does); said in the evidence, not an alarm
        part.stat('tls-leg-unavailable:' + type(exc).__name__)
        return
    split = r.random() < 0.35
    loop = asyncio.get_running_loop()
    loop.set_exception_handler(lambda lp, context: None)      # a handshake that fails on purpose is not news
    if which == 'imap':
        inject = r.choice(INJECT_IMAP)
        backend, config = await backends.make_dict(demo_data=True, tls_enabled=True, ssl_context=server_ctx(), bad_command_limit=None)
        server = IMAPServer(backend.login, config)
        cb = ProxyProtocolReader(ProxyProtocolVersion.get('v1')).get_callback(server)
        srv = await asyncio.start_server(cb, host='127.0.0.1', port=0)
        client = client_imap
    else:
        inject = r.choice(INJECT_SIEVE)
        backend, config = await backends.make_dict(users=[('alice', 'pwalice', ())], tls_enabled=True, ssl_context=server_ctx())
        server = ManageSieveServer(backend.login, config)
        cb = ProxyProtocolReader(ProxyProtocolVersion.get('noop')).get_callback(server)
        srv = await asyncio.start_server(cb, host='127.0.0.1', port=0)
        client = client_sieve
    case = dict(scenario='starttls-injection', listener=which, inject=inject.decode('latin1'), split=split)
    try:
        port = srv.sockets[0].getsockname()[1]
        res = await loop.run_in_executor(None, client, port, inject, split)
    finally:
        srv.close()
        try:
            await asyncio.wait_for(srv.wait_closed(), 2.0)
        except (asyncio.TimeoutError, TimeoutError):
            pass
    case['log'] = res['log']
    part.stat(f'tls-{which}:' + ('split' if split else 'one-segment'))
    part.case(key=key + ':' + which + ':' + inject.hex()[:40] + (':s' if split else ''), nontrivial=True, sample=dict(listener=which, inject=inject.decode('latin1'), split=split))
    if not res.get('starttls_ok') and not any(w in (res['log'][1][1] if len(res['log']) > 1 else '') for w in ('a NO', 'a BAD', 'NO ', 'BYE')):
        # nothing came back in time (a busy machine: this leg runs against the wall clock): inconclusive, said in the evidence, not an alarm
        part.stat(f'tls-{which}:no-answer-in-time')
        return
    if not res.get('starttls_ok'):
        part.violation('monitor', f'{which}: STARTTLS on a TLS-enabled listener was not answered OK: {res["log"]}', case, signature='tls-starttls-refused')
        return
    if res.get('clear_extra'):
        part.violation('monitor', f'{which}: after the OK to STARTTLS the server went on answering in clear text: {res["clear_extra"][:120]!r}', case, signature='tls-clear-after-ok')
    if not res.get('handshake'):
        # the server may hang up on a client that talks out of turn; it did so before any handshake, nothing was acted on
        part.stat(f'tls-{which}:closed-before-handshake')
        return
    uns = res.get('unsolicited')
    if uns is None:
        part.stat(f'tls-{which}:closed-after-handshake')
        return
    if which == 'imap':
        tagged = [l for l in uns.split(b'\r\n') if l[:2] in (b'b ', b'c ')]
        if tagged or uns:
            part.violation('monitor', f'imap: bytes sent in clear text before the TLS handshake ({inject!r}) were acted on after it: inside TLS, unasked, the server sent {uns[:160]!r}',
                           case, signature='tls-injection')
        after = res.get('after')
        if after is not None and b'z OK' in after:
            part.violation('monitor', f'imap: after STARTTLS + clear-text {inject!r} the connection is authenticated without any credentials inside TLS: LIST answered {after[:120]!r}',
                           case, signature='tls-injection-authenticated')
        elif after == b'':
            part.stat('tls-imap:no-answer-in-time')
        elif after is not None and not any(l.startswith((b'z NO', b'z BAD')) for l in after.split(b'\r\n')):
            part.violation('monitor', f'imap: a command sent inside TLS after the handshake was answered {after[:120]!r}', case, signature='tls-after')
    else:
        # exactly one capability block ending in OK may come unasked
        lines = [l for l in uns.split(b'\r\n') if l]
        oks = [i for i, l in enumerate(lines) if l.startswith((b'OK', b'NO', b'BYE'))]
        if len(oks) > 1 or (oks and oks[0] != len(lines) - 1):
            part.violation('monitor', f'sieve: bytes sent in clear text before the TLS handshake ({inject!r}) were acted on after it: inside TLS the server sent {uns[-200:]!r}',
                           case, signature='tls-injection')
        after = res.get('after')
        if after is not None and after.rstrip().endswith(b'OK') and not after.startswith(b'NO'):
            part.violation('monitor', f'sieve: after STARTTLS + clear-text {inject!r} the connection is authenticated without credentials inside TLS: LISTSCRIPTS answered {after[:120]!r}',
                           case, signature='tls-injection-authenticated')


def worker(job):
    import logging
    logging.disable(logging.CRITICAL)
    seed, n = job
    r = random.Random(seed)
    part = Part()
    for k in range(n):
        with guarded(part, 'C09 starttls over sockets', dict(scenario='starttls-injection', seed=seed, k=k)):
            asyncio.run(tls_case(part, r, f'tls:{seed}:{k}'))
    return part.result()
